//! C03 — concurrent transactions serialize: every committed version equals strict serial replay.
//!
//! Generator: 2-4 actors, each one operation from {append, delete, update, merge_insert (upsert /
//! update-only / partial schema), compact_files (with / without deferred index remap),
//! create_index, optimize_indices, update_config, overwrite, restore, add_columns, drop_columns}
//! on handles opened at the same or at different read versions, after a short sequential setup
//! history; 1-4 fragments; stable row ids on/off; schedules: every actor order, uniform, PCT,
//! round robin at storage-call granularity.
//!
//! Oracle: store log => which actor created which version; model (BTreeMap<id,row> + columns +
//! config + index names) replays the committed ops in version order, each evaluated on the state
//! immediately before it (workloads are phantom-free, NOTES.md); every version committed in the
//! concurrent phase is scanned and must equal the model; an op that returned Err must not have
//! created a version; an op that returned Ok must have created exactly one (except no-op
//! maintenance); indexed == unindexed answers on the final version.

use crate::c04::{sanitize_phantoms, witness};
use crate::engine::*;
use serde_json::json;
use std::time::Duration;
use vmon::prng::Rng;
use vmon::report::{Args, Report};
use vmon::table::{Actor, IdAlloc};

fn id_sample(rng: &mut Rng, n: i64, k: usize) -> Vec<i64> {
    let mut v: Vec<i64> = rng
        .sample_indices(n as usize, k.min(n as usize))
        .into_iter()
        .map(|x| x as i64)
        .collect();
    v.sort();
    v
}

fn pred(rng: &mut Rng, n: i64, rpf: i64) -> IdPred {
    match rng.below(4) {
        0 => {
            // a whole fragment
            let f = rng.below((n / rpf) as u64) as i64;
            IdPred::Range(f * rpf, (f + 1) * rpf)
        }
        1 => {
            let lo = rng.below(n as u64) as i64;
            let hi = (lo + 1 + rng.below(rpf as u64 + 2) as i64).min(n);
            IdPred::Range(lo, hi)
        }
        _ => {
            let k = rng.urange(1, 4);
            IdPred::In(id_sample(rng, n, k))
        }
    }
}

pub fn gen_case(seed: u64, idx: u64) -> HistorySpec {
    let mut rng = Rng::for_case(seed, idx);
    let frags = rng.urange(1, 4);
    let rpf = *rng.pick(&[4usize, 6, 10]);
    let n = (frags * rpf) as i64;
    let n_ops = *rng.pick_weighted(&[(4, 2usize), (4, 3), (2, 4)]);
    // setup history (each op one version)
    let mut pre_ops = vec![];
    let mut pre_alloc = IdAlloc::new(8);
    let mut have_index: Option<&'static str> = None;
    let mut have_x0 = false;
    for _ in 0..rng.urange(0, 3) {
        let op = match rng.below(7) {
            0 if !have_x0 => Op::Append { ids: pre_alloc.take(rng.urange(1, 4)), salt: 77 },
            1 => Op::Delete { pred: IdPred::In(id_sample(&mut rng, n, 2)), retries: None },
            2 => Op::Update { pred: pred(&mut rng, n, rpf as i64), add: 100, set_w: None, retries: None },
            3 if have_index.is_none() => {
                let col = *rng.pick(&["v", "id", "w"]);
                have_index = Some(col);
                Op::CreateIndex { col, name: "idx0".into() }
            }
            4 if !have_x0 => {
                have_x0 = true;
                Op::AddColumn { name: "x0".into(), nullable: rng.bool() }
            }
            5 => Op::UpdateConfig { key: "vk0".into(), value: format!("p{}", rng.below(100)) },
            _ if !have_x0 => Op::Append { ids: pre_alloc.take(rng.urange(1, 3)), salt: 78 },
            _ => Op::Delete { pred: IdPred::In(id_sample(&mut rng, n, 1)), retries: None },
        };
        pre_ops.push(op);
    }
    let base = 1 + pre_ops.len() as u64;
    let shared_cfg_key = rng.chance(1, 3);
    let mut actors = vec![];
    for k in 0..n_ops {
        let mut alloc = IdAlloc::new(k + 1);
        let retries = if rng.chance(1, 5) { Some(0) } else { None };
        let kind = *rng.pick_weighted(&[
            (4, "append"),
            (4, "delete"),
            (4, "update"),
            (2, "merge_upsert"),
            (1, "merge_update"),
            (2, "merge_col"),
            (3, "compact"),
            (1, "compact_defer"),
            (2, "create_index"),
            (1, "optimize_indices"),
            (2, "update_config"),
            (1, "overwrite"),
            (1, "restore"),
            (1, "add_column"),
            (1, "drop_column"),
            (1, "rename_column"),
            (1, "detached_append"),
        ]);
        let op = match kind {
            "append" => Op::Append { ids: alloc.take(rng.urange(1, 5)), salt: rng.next_u64() | 1 },
            "delete" => Op::Delete { pred: pred(&mut rng, n, rpf as i64), retries },
            "update" => Op::Update {
                pred: pred(&mut rng, n, rpf as i64),
                add: rng.range(1, 9),
                set_w: if rng.chance(1, 3) { Some(rng.range(10, 20) as i32) } else { None },
                retries,
            },
            "merge_upsert" => {
                let k = rng.urange(0, 4);
                let mut ids = id_sample(&mut rng, n, k);
                ids.extend(alloc.take(rng.urange(0, 3)));
                if ids.is_empty() {
                    ids = alloc.take(1);
                }
                Op::Merge { ids, salt: rng.next_u64() | 1, insert: true, retries }
            }
            "merge_update" => Op::Merge { ids: id_sample(&mut rng, n, 3), salt: rng.next_u64() | 1, insert: false, retries },
            "merge_col" => Op::MergeCol {
                ids: id_sample(&mut rng, n, 3),
                col: if rng.bool() { "v" } else { "w" },
                salt: rng.next_u64() | 1,
                retries,
            },
            "compact" => Op::Compact { defer_remap: false },
            "compact_defer" => Op::Compact { defer_remap: true },
            "create_index" => {
                if rng.chance(1, 3) {
                    Op::CreateIndex { col: "w", name: format!("bm{}", k + 1) }
                } else {
                    Op::CreateIndex { col: *rng.pick(&["v", "id", "w"]), name: format!("idx{}", k + 1) }
                }
            }
            "rename_column" => Op::RenameColumn { from: "s".into(), to: format!("s_r{}", k + 1) },
            "detached_append" => Op::DetachedAppend { ids: alloc.take(rng.urange(1, 3)), salt: rng.next_u64() | 1 },
            "optimize_indices" => Op::OptimizeIndices,
            "update_config" => Op::UpdateConfig {
                key: if shared_cfg_key { "vk".into() } else { format!("vk{}", k + 1) },
                value: format!("a{}-{}", k + 1, rng.below(1000)),
            },
            "overwrite" => Op::Overwrite { ids: alloc.take(rng.urange(1, 5)), salt: rng.next_u64() | 1 },
            "restore" => Op::Restore { version: rng.range(1, base as i64) as u64 },
            "add_column" => Op::AddColumn { name: format!("x{}", k + 1), nullable: rng.bool() },
            _ => Op::DropColumn { name: if have_x0 && rng.bool() { "x0".into() } else { "s".into() } },
        };
        let rv = if rng.chance(1, 3) { rng.range(1, base as i64) as u64 } else { base };
        actors.push((rv, op));
    }
    // at most one drop of a given column (a second one is a plain InvalidInput, uninteresting)
    let mut dropped = std::collections::BTreeSet::new();
    for (_, op) in actors.iter_mut() {
        if let Op::DropColumn { name } = op {
            if !dropped.insert(name.clone()) {
                *op = Op::Compact { defer_remap: false };
            }
        }
    }
    // a handle older than the version that added x0 cannot drop x0
    sanitize_phantoms(&pre_ops, &mut actors, n);
    let perms = permutations(n_ops);
    let strategy = match idx % 4 {
        0 => StratSpec::ActorOrder(perms[rng.usize_below(perms.len())].clone()),
        1 => StratSpec::Uniform(rng.next_u64()),
        2 => StratSpec::Pct(rng.next_u64(), rng.urange(1, 3)),
        _ => {
            if rng.bool() {
                StratSpec::RoundRobin
            } else {
                StratSpec::Uniform(rng.next_u64())
            }
        }
    };
    HistorySpec {
        name: format!("c03-{seed}-{idx}"),
        stable_row_ids: rng.bool(),
        // detached commits need the V2 manifest naming scheme
        v2_manifest_paths: rng.chance(1, 4) || actors.iter().any(|a| matches!(a.1, Op::DetachedAppend { .. })),
        frags,
        rows_per_frag: rpf,
        pre_ops,
        actors,
        strategy,
    }
}

async fn one_case(report: &Report, seed: u64, idx: u64) {
    // every 5th case belongs to the phantom-prone class (admissible-read-version oracle)
    if idx % 5 == 4 {
        crate::c03p::one_case(report, seed, idx, false).await;
        return;
    }
    let spec = gen_case(seed, idx);
    let out = match run_history(&spec, WATCHDOG).await {
        Ok(o) => o,
        Err(e) => {
            report.count("setup_failures", 1);
            if std::env::var("E_CONC_DEBUG").is_ok() {
                eprintln!("setup failure case {idx}: {e}");
            }
            if report.counter("setup_failures") > 20 {
                report.harness_error(&format!("setup failed repeatedly: {e}"));
            }
            return;
        }
    };
    if out.sched.watchdog_fired {
        report.inconclusive(&format!("watchdog fired in case {idx}"));
        report.count("watchdog_fired", 1);
        report.case(None);
        return;
    }
    let facts = log_facts(&out.events);
    let sc = check_serial(&out, None).await;
    if let Some(e) = &sc.harness_error {
        report.harness_error(&format!("case {idx}: {e}"));
        return;
    }
    count_history(report, &out, &facts);
    note_interleaving(&out, &facts);
    report.count("rows_compared", sc.rows_compared);
    report.count("versions_compared", sc.versions_compared);
    for r in &out.results {
        report.count(&format!("op_{}_{}", r.op.kind(), if r.result.is_ok() { "ok" } else { "err" }), 1);
        if let Err((c, _)) = &r.result {
            if is_conflict_class(c) {
            } else if matches!(c.as_str(), "InvalidInput" | "NotSupported" | "SchemaMismatch") {
                report.rejected();
            } else {
                report.count(&format!("diagnostic_error_class_{c}_{}", r.op.kind()), 1);
                if std::env::var("E_CONC_DEBUG").is_ok() {
                    eprintln!("case {idx}: {}", r.describe());
                    if c == "IO" {
                        for l in out.sched.brief(400) {
                            eprintln!("    {l}");
                        }
                    }
                }
            }
        }
    }
    let mut findings = sc.findings.clone();
    reclassify_key_index_merge(&out, &mut findings);
    if findings.is_empty() {
        let (f, n) = aftermath(&out, &sc).await;
        report.count("aftermath_rows_compared", n);
        findings.extend(f);
    }
    // indexed == unindexed on the final version
    if findings.is_empty() {
        let reader = Actor::new(out.world.new_actor(0));
        if let Ok(ds) = reader.open(&out.uri).await {
            let cause = history_cause(&out);
            match check_index_coverage(&ds, &cause, false).await {
                Ok((f, st)) => {
                    report.count("index_queries_compared", st.queries);
                    report.count("index_queries_using_index", st.queries_using_index);
                    findings.extend(f);
                }
                Err(e) => {
                    findings.push(Finding {
                        signature: "query-fails-on-final-version".into(),
                        what: format!("query on the final version failed: {e}"),
                        detail: json!({}),
                    });
                }
            }
        }
    }
    for f in &findings {
        report.violation(&f.signature, &f.what, witness(&out, seed, idx, json!({}), f));
    }
    let nontrivial = exercised_concurrency(&out);
    report.case(if nontrivial { Some(shape_hash(&out)) } else { None });
    if nontrivial && report.want_sample() && idx % 7 == 0 {
        report.sample(json!({
            "case": idx,
            "history": out.spec.describe(),
            "results": out.results.iter().map(|r| r.describe()).collect::<Vec<_>>(),
            "commit_order": sc.commit_order.iter().map(|(v,i,_)| json!({"version": v, "actor": out.results[*i].actor, "op": out.results[*i].op.kind()})).collect::<Vec<_>>(),
            "interleaving_head": out.sched.brief(20),
        }));
    }
}

pub fn run(args: &Args) -> i32 {
    if args.extra.contains_key("selftest") {
        return selftest(args);
    }
    let report = Report::new(
        args,
        "exploration",
        "seeded histories of 2-4 concurrent public-API operations (15 kinds) on handles at same/different read versions x schedule {every actor order, uniform, PCT, round robin}; non-trivial iff an op committed over a concurrent transaction or failed with a conflict; distinct = hash(ops, read versions, results, released storage-call sequence)",
        (75, 900),
    )
    .with_min_nontrivial(50);
    // quick: fixed case set per seed; the budget is only a safety cap
    let max_cases = args.tier.pick(2_000, 200_000);
    let seed = args.seed;
    if let Some(path) = &args.replay {
        let txt = std::fs::read_to_string(path).unwrap_or_default();
        let v: serde_json::Value = serde_json::from_str(&txt).unwrap_or_default();
        let seed = v["witness"]["seed"].as_u64().unwrap_or(args.seed);
        let idx = v["witness"]["case_index"].as_u64().unwrap_or(0);
        let rt = tokio::runtime::Builder::new_current_thread().enable_all().build().unwrap();
        for _ in 0..10 {
            rt.block_on(one_case(&report, seed, idx));
        }
        return report.finish();
    }
    if let Some(c) = args.extra.get("case").and_then(|c| c.parse::<u64>().ok()) {
        let rt = tokio::runtime::Builder::new_current_thread().enable_all().build().unwrap();
        rt.block_on(one_case(&report, seed, c));
        return report.finish();
    }
    run_parallel(&report, 16, max_cases, |i| one_case(&report, seed, i));
    publish_interleavings(&report);
    report.finish()
}

fn selftest(args: &Args) -> i32 {
    let rt = tokio::runtime::Builder::new_current_thread().enable_all().build().unwrap();
    let mut fired = [0u32; 3];
    let mut tried = [0u32; 3];
    for idx in 0..40u64 {
        let spec = gen_case(args.seed, idx);
        let Ok(out) = rt.block_on(run_history(&spec, WATCHDOG)) else { continue };
        let clean = rt.block_on(check_serial(&out, None));
        if !clean.findings.is_empty() || clean.harness_error.is_some() || clean.commit_order.is_empty() {
            continue;
        }
        if clean.states.get(&clean.final_version).map(|s| s.rows.is_empty()).unwrap_or(true) {
            continue;
        }
        let m = (idx % 3) as usize;
        let corrupt: Box<dyn Fn(&mut Observed) + Sync> = match m {
            0 => Box::new(|o: &mut Observed| { o.rows.pop(); }),
            1 => Box::new(|o: &mut Observed| { if let Some(r) = o.rows.first().cloned() { o.rows.push(r); } }),
            _ => Box::new(|o: &mut Observed| {
                if let Some(r) = o.rows.first_mut() {
                    r[1] = match &r[1] { vmon::table::Cell::Int(x) => vmon::table::Cell::Int(x - 1), _ => vmon::table::Cell::Int(0) };
                }
            }),
        };
        let sc = rt.block_on(check_serial(&out, Some(&*corrupt)));
        tried[m] += 1;
        if !sc.findings.is_empty() {
            fired[m] += 1;
        }
    }
    let (mut pf, mut pt) = (0, 0);
    let dummy = Report::new(args, "exploration", "selftest", (60, 60));
    for idx in 0..25u64 {
        if let Some(f) = rt.block_on(crate::c03p::one_case(&dummy, args.seed, idx * 5 + 4, true)) {
            pt += 1;
            if f {
                pf += 1;
            }
        }
    }
    println!("SELFTEST C03 phantom-class stale-value {pf}/{pt}");
    if pf != pt || pt == 0 {
        return 2;
    }
    println!("SELFTEST C03 dropped-row {}/{} duplicated-row {}/{} stale-value {}/{}", fired[0], tried[0], fired[1], tried[1], fired[2], tried[2]);
    if fired == tried && tried.iter().all(|t| *t > 0) { 0 } else { 2 }
}
