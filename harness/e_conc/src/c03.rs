//! C03 — placeholder while C04 is brought up.
use vmon::report::Args;
pub fn run(_args: &Args) -> i32 {
    eprintln!("HARNESS-ERROR C03 not implemented");
    2
}
