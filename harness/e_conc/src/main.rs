//! Engine binary `e_conc`: one module per property. See /verif/DESIGN.md.
use vmon::report::parse_args;

mod engine;
mod c03;
mod c03p;
mod c04;
mod c24;
mod c39;
mod probe;

fn main() {
    let args = parse_args();
    {
        // Lance panics inside spawned operations are caught (JoinError / catch_unwind) and judged
        // by the oracles; keep stderr readable, remember where the last panic happened.
        let debug = std::env::var("E_CONC_DEBUG").is_ok();
        std::panic::set_hook(Box::new(move |info| {
            let loc = info.location().map(|l| format!("{}:{}", l.file(), l.line())).unwrap_or_default();
            if debug {
                eprintln!("panic at {loc}: {info}");
            }
            engine::PANIC_LOG.lock().unwrap().push((std::time::Instant::now(), loc.clone()));
            engine::THREAD_PANIC_LOCATION.with(|l| *l.borrow_mut() = Some(loc.clone()));
            *engine::LAST_PANIC_LOCATION.lock().unwrap() = Some(loc);
        }));
    }
    let code = match args.prop.as_str() {
        "C03" => c03::run(&args),
        "C04" => c04::run(&args),
        "C24" => c24::run(&args),
        "C39" => c39::run(&args),
        "PROBE" => probe::run(&args),
        other => {
            eprintln!("HARNESS-ERROR e_conc does not serve property '{other}'");
            2
        }
    };
    std::process::exit(code);
}
