//! Engine binary `e_conc`: one module per property. See /verif/DESIGN.md.
use vmon::report::parse_args;

mod engine;
mod c03;
mod c04;
mod c24;
mod c39;

fn main() {
    let args = parse_args();
    let code = match args.prop.as_str() {
        "C03" => c03::run(&args),
        "C04" => c04::run(&args),
        "C24" => c24::run(&args),
        "C39" => c39::run(&args),
        other => {
            eprintln!("HARNESS-ERROR e_conc does not serve property '{other}'");
            2
        }
    };
    std::process::exit(code);
}
