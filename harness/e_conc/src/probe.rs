//! Minimal fixed histories that reproduce the defects found by the random checks
//! (`e_conc PROBE --name <n>`); used for the finding write-ups, not a check.
use crate::engine::*;
use std::time::Duration;
use vmon::report::Args;
use vmon::table::Actor;

pub fn run(args: &Args) -> i32 {
    let name = args.extra.get("name").cloned().unwrap_or_default();
    let stable = args.extra.get("stable").map(|s| s == "1").unwrap_or(true);
    let spec = match name.as_str() {
        // sequential: index, update, delete, compaction with stable row ids, then indexed query
        "rowid" => HistorySpec {
            name: "probe-rowid".into(), stable_row_ids: stable, v2_manifest_paths: false, frags: 3, rows_per_frag: 6,
            pre_ops: vec![
                Op::CreateIndex { col: "v", name: "idx0".into() },
                Op::Update { pred: IdPred::In(vec![1, 3, 7, 9]), add: 100, set_w: None, retries: None },
                Op::Delete { pred: IdPred::In(vec![8, 17]), retries: None },
            ],
            actors: vec![(4, Op::Compact { defer_remap: false })],
            strategy: StratSpec::ActorOrder(vec![1]),
        },
        // sequential: deletions, compaction with deferred index remap (no user index at all)
        "fragreuse" => HistorySpec {
            name: "probe-fragreuse".into(), stable_row_ids: stable, v2_manifest_paths: false, frags: 3, rows_per_frag: 6,
            pre_ops: vec![Op::Delete { pred: IdPred::In(vec![0, 3, 6]), retries: None }],
            actors: vec![(2, Op::Compact { defer_remap: true })],
            strategy: StratSpec::ActorOrder(vec![1]),
        },
        // concurrent: append from a handle older than an add_columns of a NOT NULL column
        "append_addcol" => HistorySpec {
            name: "probe-append-addcol".into(), stable_row_ids: false, v2_manifest_paths: false, frags: 1, rows_per_frag: 4,
            pre_ops: vec![],
            actors: vec![
                (1, Op::AddColumn { name: "x1".into(), nullable: false }),
                (1, Op::Append { ids: vec![1000], salt: 5 }),
            ],
            strategy: StratSpec::ActorOrder(vec![1, 2]),
        },
        // sequential: index, update (rows move, row ids kept), optimize_indices
        "update_optimize" => HistorySpec {
            name: "probe-update-optimize".into(), stable_row_ids: stable, v2_manifest_paths: false, frags: 2, rows_per_frag: 6,
            pre_ops: vec![
                Op::CreateIndex { col: "v", name: "idx".into() },
                Op::Update { pred: IdPred::In(vec![4, 5, 10]), add: 6, set_w: None, retries: None },
            ],
            actors: vec![(3, Op::OptimizeIndices)],
            strategy: StratSpec::ActorOrder(vec![1]),
        },
        // sequential: index, in-place column rewrite (bitmap pruned), optimize_indices
        "mergecol_optimize" => HistorySpec {
            name: "probe-mergecol-optimize".into(), stable_row_ids: stable, v2_manifest_paths: false, frags: 2, rows_per_frag: 6,
            pre_ops: vec![
                Op::CreateIndex { col: "v", name: "idx".into() },
                Op::MergeCol { ids: vec![1, 2, 4], col: "v", salt: 99, retries: None },
            ],
            actors: vec![(3, Op::OptimizeIndices)],
            strategy: StratSpec::ActorOrder(vec![1]),
        },
        // sequential: index, then data replacement of the file holding the indexed column
        "datarepl_index" => HistorySpec {
            name: "probe-datarepl-index".into(), stable_row_ids: stable, v2_manifest_paths: false, frags: 2, rows_per_frag: 6,
            pre_ops: vec![Op::CreateIndex { col: "v", name: "idx".into() }],
            actors: vec![(2, Op::ReplaceV { frag: 1, ids: (6..12).collect(), salt: 99 })],
            strategy: StratSpec::ActorOrder(vec![1]),
        },
        // sequential, stable row ids: index on id, partial update, update of every row, compaction
        "rowid_wrong_row" => HistorySpec {
            name: "probe-rowid-wrong-row".into(), stable_row_ids: stable, v2_manifest_paths: false, frags: 2, rows_per_frag: 10,
            pre_ops: vec![
                Op::CreateIndex { col: "id", name: "idx".into() },
                Op::Update { pred: IdPred::In(vec![2, 4, 17]), add: 4, set_w: None, retries: None },
                Op::Update { pred: IdPred::Range(0, i64::MAX), add: 1000, set_w: None, retries: None },
            ],
            actors: vec![(4, Op::Compact { defer_remap: false })],
            strategy: StratSpec::ActorOrder(vec![1]),
        },
        // sequential, stable row ids: index on id, deferred-remap compaction, then indexed reads
        "defer_stable_index" => HistorySpec {
            name: "probe-defer-stable-index".into(), stable_row_ids: stable, v2_manifest_paths: false, frags: 3, rows_per_frag: 6,
            pre_ops: vec![Op::CreateIndex { col: "id", name: "idx".into() }],
            actors: vec![(2, Op::Compact { defer_remap: true })],
            strategy: StratSpec::ActorOrder(vec![1]),
        },
        // sequential: btree on the merge key, delete, then partial-schema merge_insert naming deleted keys
        "mergecol_after_delete_indexed" => HistorySpec {
            name: "probe-mergecol-after-delete-indexed".into(), stable_row_ids: stable, v2_manifest_paths: false, frags: 3, rows_per_frag: 6,
            pre_ops: vec![
                Op::CreateIndex { col: "id", name: "idx".into() },
                Op::Delete { pred: IdPred::Range(0, 2), retries: None },
            ],
            actors: vec![(3, Op::MergeCol { ids: vec![0, 1, 5], col: "v", salt: 99, retries: None })],
            strategy: StratSpec::ActorOrder(vec![1]),
        },
        // sequential: btree on the merge key, in-place column rewrite, then a full-schema merge_insert
        "ambiguous_merge" => HistorySpec {
            name: "probe-ambiguous-merge".into(), stable_row_ids: stable, v2_manifest_paths: false, frags: 3, rows_per_frag: 6,
            pre_ops: vec![
                Op::CreateIndex { col: "id", name: "idx".into() },
                Op::MergeCol { ids: vec![0, 1, 2, 3, 4, 5], col: "v", salt: 99, retries: None },
            ],
            actors: vec![(3, Op::Merge { ids: vec![0, 1, 6, 13], salt: 7, insert: false, retries: None })],
            strategy: StratSpec::ActorOrder(vec![1]),
        },
        // sequential: btree on the merge key, update (rows move), then a full-schema merge_insert
        "ambiguous_merge_update" => HistorySpec {
            name: "probe-ambiguous-merge-update".into(), stable_row_ids: stable, v2_manifest_paths: false, frags: 3, rows_per_frag: 6,
            pre_ops: vec![
                Op::CreateIndex { col: "id", name: "idx".into() },
                Op::Update { pred: IdPred::In(vec![0, 6, 8, 12]), add: 9, set_w: None, retries: None },
            ],
            actors: vec![(3, Op::Merge { ids: vec![2, 6, 11], salt: 7, insert: true, retries: None })],
            strategy: StratSpec::ActorOrder(vec![1]),
        },
        // race: key index, delete wins, partial-schema merge_insert naming deleted keys is re-executed
        "retry_mi_after_delete" => HistorySpec {
            name: "probe-retry-mi-after-delete".into(), stable_row_ids: stable, v2_manifest_paths: false, frags: 3, rows_per_frag: 6,
            pre_ops: vec![Op::CreateIndex { col: "id", name: "idx".into() }],
            actors: vec![
                (2, Op::Delete { pred: IdPred::In(vec![0, 1]), retries: None }),
                (2, if args.extra.contains_key("full") { Op::Merge { ids: vec![0, 1, 5], salt: 99, insert: false, retries: None } } else { Op::MergeCol { ids: vec![0, 1, 5], col: "v", salt: 99, retries: None } }),
            ],
            strategy: StratSpec::ActorOrder(vec![1, 2]),
        },
        // race: key index, an update wins (rows move, row ids kept), merge_insert naming a moved key is re-executed
        "retry_mi_after_update" => HistorySpec {
            name: "probe-retry-mi-after-update".into(), stable_row_ids: stable, v2_manifest_paths: false, frags: 3, rows_per_frag: 4,
            pre_ops: vec![Op::CreateIndex { col: "id", name: "idx".into() }],
            actors: vec![
                (2, Op::Update { pred: IdPred::In(vec![2, 7, 8, 11]), add: 1, set_w: Some(14), retries: None }),
                (if args.extra.contains_key("fresh") { 99 } else { 2 }, Op::Merge { ids: vec![0, 1, 4, 7], salt: 99, insert: false, retries: None }),
            ],
            strategy: StratSpec::ActorOrder(vec![1, 2]),
        },
        // the C04 seed-3 case 1607 history with a fixed actor order
        "retry_mi_after_two_updates" => HistorySpec {
            name: "probe-retry-mi-after-two-updates".into(), stable_row_ids: stable, v2_manifest_paths: false, frags: 3, rows_per_frag: 4,
            pre_ops: vec![
                Op::CreateIndex { col: "id", name: "idx".into() },
                Op::Append { ids: vec![8796093022208], salt: 77 },
            ],
            actors: vec![
                (3, Op::Update { pred: IdPred::In(vec![1, 2, 3, 8, 9, 11]), add: 2, set_w: None, retries: None }),
                (if args.extra.contains_key("seq") { 4 } else { 3 }, Op::Update { pred: IdPred::In(vec![2, 7, 8, 11]), add: 1, set_w: Some(14), retries: None }),
                (if args.extra.contains_key("seq") { 5 } else { 3 }, Op::Merge { ids: vec![0, 1, 4, 7], salt: 99, insert: false, retries: None }),
            ],
            strategy: StratSpec::ActorOrder(vec![1, 2, 3]),
        },
        // sequential control of the above: both updates are setup ops, the merge_insert runs on a fresh handle
        "mi_after_two_updates_seq" => HistorySpec {
            name: "probe-mi-after-two-updates-seq".into(), stable_row_ids: stable, v2_manifest_paths: false, frags: 3, rows_per_frag: 4,
            pre_ops: vec![
                Op::CreateIndex { col: "id", name: "idx".into() },
                Op::Append { ids: vec![8796093022208], salt: 77 },
                Op::Update { pred: IdPred::In(vec![1, 2, 3, 8, 9, 11]), add: 2, set_w: None, retries: None },
                Op::Update { pred: IdPred::In(vec![2, 7, 8, 11]), add: 1, set_w: Some(14), retries: None },
            ],
            actors: vec![(5, Op::Merge { ids: vec![0, 1, 4, 7], salt: 99, insert: false, retries: None })],
            strategy: StratSpec::ActorOrder(vec![1]),
        },
        _ => {
            eprintln!("unknown probe");
            return 2;
        }
    };
    let rt = tokio::runtime::Builder::new_current_thread().enable_all().build().unwrap();
    rt.block_on(async {
        let out = run_history(&spec, WATCHDOG).await.expect("history");
        for r in &out.results {
            println!("{}", r.describe());
        }
        let sc = check_serial(&out, None).await;
        for f in &sc.findings {
            println!("FINDING {} :: {}", f.signature, f.what);
        }
        let reader = Actor::new(out.world.new_actor(0));
        if sc.findings.is_empty() && args.extra.contains_key("aftermath") {
            let (f, n) = aftermath(&out, &sc).await;
            println!("aftermath rows compared {n}");
            for f in f {
                println!("FINDING {} :: {}", f.signature, f.what);
            }
        }
        if sc.findings.is_empty() {
            let ds = reader.open(&out.uri).await.unwrap();
            let (f, st) = check_index_coverage(&ds, &history_cause(&out), false).await.unwrap();
            println!("index check: {st:?}");
            for f in f {
                println!("FINDING {} :: {}", f.signature, f.what);
            }
        }
    });
    0
}
