//! C39 — the MemWAL index follows its state machine under concurrency.
//!
//! Generator: a sequential setup builds 1-2 regions with a ladder of generations in random
//! states (open / sealed / flushed / merged); then 2-3 actors, each with its own handle and a
//! script of 1-3 operations planned against its own view {advance generation, append WAL entry,
//! seal, flush, mark merged, owner change, trim, merge_insert with mark_mem_wal_as_merged, plain
//! append}, run under the gate scheduler (every actor order, uniform, PCT, round robin).
//!
//! Oracle (offline, over what was committed): every version's MemWAL index details are decoded
//! (the raw list, so duplicates are visible) and the version-ordered sequence must satisfy:
//!   S1 each (region, generation) appears at most once in a version;
//!   S2 a generation that first appears is max-ever(region)+1 (0 for a new region);
//!   S3 only the highest generation of a region may be Open;
//!   S4 the state of a generation never moves backwards (Open<Sealed<Flushed<Merged);
//!   S5 a generation that disappeared was Merged (trim) and never reappears;
//! and the history rule H: two committed transactions that were concurrent (read version of each
//! < commit version of the other; read version = version of the handle the op was called on)
//! never both changed the same (region, generation), nor the owner within the same region.

use crate::engine::*;
use lance::dataset::{MergeInsertBuilder, WhenMatched, WhenNotMatched, WriteMode, WriteParams};
use lance::index::mem_wal::{
    advance_mem_wal_generation, append_mem_wal_entry, mark_mem_wal_as_flushed, mark_mem_wal_as_merged,
    mark_mem_wal_as_sealed, trim_mem_wal_index, update_mem_wal_owner,
};
use lance::Dataset;
use lance_index::mem_wal::{MemWalId, MemWalIndexDetails, State, MEM_WAL_INDEX_NAME};
use lance_index::DatasetIndexExt;
use lance_table::format::pb;
use serde_json::{json, Value};
use std::collections::{BTreeMap, BTreeSet};
use std::sync::atomic::{AtomicU64, Ordering};
use std::sync::Arc;
use vmon::prng::{fnv, Rng};
use vmon::report::{Args, Report};
use vmon::store::{Sched, World};
use vmon::table::{Actor, Row};

#[derive(Clone, Debug)]
enum MOp {
    Advance { region: String, expected: Option<String>, new_owner: String, tag: u64 },
    Entry { region: String, gen: u64, entry: u64, owner: String },
    Seal { region: String, gen: u64, owner: String },
    Flush { region: String, gen: u64, owner: String },
    Merged { region: String, gen: u64, owner: String },
    Owner { region: String, gen: u64, new_owner: String },
    Trim,
    MergeInsert { region: String, gen: u64, owner: String, ids: Vec<i64>, salt: u64 },
    TableAppend { ids: Vec<i64> },
    Refresh,
}

impl MOp {
    fn kind(&self) -> &'static str {
        match self {
            MOp::Advance { .. } => "advance",
            MOp::Entry { .. } => "append_entry",
            MOp::Seal { .. } => "seal",
            MOp::Flush { .. } => "flush",
            MOp::Merged { .. } => "mark_merged",
            MOp::Owner { .. } => "owner_change",
            MOp::Trim => "trim",
            MOp::MergeInsert { .. } => "merge_insert_mark_merged",
            MOp::TableAppend { .. } => "table_append",
            MOp::Refresh => "checkout_latest",
        }
    }
    fn describe(&self) -> Value {
        match self {
            MOp::Advance { region, expected, new_owner, .. } => json!({"op":"advance","region":region,"expected_owner":expected,"new_owner":new_owner}),
            MOp::Entry { region, gen, entry, owner } => json!({"op":"append_entry","region":region,"gen":gen,"entry":entry,"owner":owner}),
            MOp::Seal { region, gen, owner } => json!({"op":"seal","region":region,"gen":gen,"owner":owner}),
            MOp::Flush { region, gen, owner } => json!({"op":"flush","region":region,"gen":gen,"owner":owner}),
            MOp::Merged { region, gen, owner } => json!({"op":"mark_merged","region":region,"gen":gen,"owner":owner}),
            MOp::Owner { region, gen, new_owner } => json!({"op":"owner_change","region":region,"gen":gen,"new_owner":new_owner}),
            MOp::Trim => json!({"op":"trim"}),
            MOp::MergeInsert { region, gen, owner, ids, .. } => json!({"op":"merge_insert_mark_merged","region":region,"gen":gen,"owner":owner,"ids":ids}),
            MOp::TableAppend { ids } => json!({"op":"table_append","ids":ids}),
            MOp::Refresh => json!({"op":"checkout_latest"}),
        }
    }
}

fn reader_of(rows: &[Row]) -> Box<dyn arrow_array::RecordBatchReader + Send + 'static> {
    let b = rows_to_batch(rows, &BASE_COLS);
    let schema = b.schema();
    Box::new(arrow_array::RecordBatchIterator::new(vec![Ok(b)].into_iter(), schema))
}

async fn exec(ds: &mut Dataset, actor: &Actor, op: &MOp) -> lance::Result<()> {
    match op {
        MOp::Advance { region, expected, new_owner, tag } => {
            advance_mem_wal_generation(
                ds,
                region,
                &format!("mem://{region}/{tag}"),
                &format!("wal://{region}/{tag}"),
                expected.as_deref(),
                new_owner,
            )
            .await
        }
        MOp::Entry { region, gen, entry, owner } => append_mem_wal_entry(ds, region, *gen, *entry, owner).await.map(|_| ()),
        MOp::Seal { region, gen, owner } => mark_mem_wal_as_sealed(ds, region, *gen, owner).await.map(|_| ()),
        MOp::Flush { region, gen, owner } => mark_mem_wal_as_flushed(ds, region, *gen, owner).await.map(|_| ()),
        MOp::Merged { region, gen, owner } => mark_mem_wal_as_merged(ds, region, *gen, owner).await.map(|_| ()),
        MOp::Owner { region, gen, new_owner } => update_mem_wal_owner(ds, region, *gen, new_owner, None).await.map(|_| ()),
        MOp::Trim => trim_mem_wal_index(ds).await,
        MOp::MergeInsert { region, gen, owner, ids, salt } => {
            let rows: Vec<Row> = ids.iter().map(|i| gen_row(*i, *salt)).collect();
            let mut b = MergeInsertBuilder::try_new(Arc::new(ds.clone()), vec!["id".to_string()])?;
            b.when_matched(WhenMatched::UpdateAll).when_not_matched(WhenNotMatched::InsertAll);
            b.retry_timeout(RETRY_TIMEOUT);
            b.mark_mem_wal_as_merged(MemWalId::new(region, *gen), owner).await?;
            let (out, _) = b.try_build()?.execute_reader(reader_of(&rows)).await?;
            *ds = out.as_ref().clone();
            Ok(())
        }
        MOp::TableAppend { ids } => {
            let rows: Vec<Row> = ids.iter().map(|i| gen_row(*i, 3)).collect();
            let params = WriteParams { auto_cleanup: None, ..actor.write_params(WriteMode::Append) };
            ds.append(reader_of(&rows), Some(params)).await
        }
        MOp::Refresh => ds.checkout_latest().await,
    }
}

// ---------------------------------------------------------------------------------------------
// local view used to plan scripts
// ---------------------------------------------------------------------------------------------

#[derive(Clone, Debug, PartialEq)]
struct GenView {
    state: u8,
    owner: String,
    high: u64,
}

type View = BTreeMap<String, BTreeMap<u64, GenView>>;

fn view_apply(view: &mut View, op: &MOp) {
    match op {
        MOp::Advance { region, new_owner, .. } => {
            let gens = view.entry(region.clone()).or_default();
            let next = gens.keys().last().map(|g| g + 1).unwrap_or(0);
            if let Some((_, last)) = gens.iter_mut().last() {
                if last.state == 0 {
                    last.state = 1;
                }
            }
            gens.insert(next, GenView { state: 0, owner: new_owner.clone(), high: 0 });
        }
        MOp::Entry { region, gen, entry, .. } => {
            if let Some(g) = view.get_mut(region).and_then(|m| m.get_mut(gen)) {
                g.high = *entry;
            }
        }
        MOp::Seal { region, gen, .. } => set_state(view, region, *gen, 1),
        MOp::Flush { region, gen, .. } => set_state(view, region, *gen, 2),
        MOp::Merged { region, gen, .. } | MOp::MergeInsert { region, gen, .. } => set_state(view, region, *gen, 3),
        MOp::Owner { region, gen, new_owner } => {
            if let Some(g) = view.get_mut(region).and_then(|m| m.get_mut(gen)) {
                g.owner = new_owner.clone();
            }
        }
        MOp::Trim => {
            for gens in view.values_mut() {
                gens.retain(|_, g| g.state != 3);
            }
        }
        _ => {}
    }
}

fn set_state(view: &mut View, region: &str, gen: u64, s: u8) {
    if let Some(g) = view.get_mut(region).and_then(|m| m.get_mut(&gen)) {
        g.state = s;
    }
}

static TAG: AtomicU64 = AtomicU64::new(1);

/// One op that is (mostly) valid in `view`.
fn plan_op(rng: &mut Rng, view: &View, actor: usize, regions: &[String], fresh: &mut i64) -> MOp {
    let region = rng.pick(regions).clone();
    let gens = view.get(&region).cloned().unwrap_or_default();
    let latest = gens.iter().last().map(|(g, v)| (*g, v.clone()));
    let me = format!("own{actor}");
    let sloppy = rng.chance(1, 10); // deliberately stale / wrong parameters
    let pick_in_state = |rng: &mut Rng, s: u8| -> Option<(u64, GenView)> {
        let c: Vec<(u64, GenView)> = gens.iter().filter(|(_, v)| v.state == s).map(|(g, v)| (*g, v.clone())).collect();
        if c.is_empty() { None } else { Some(c[rng.usize_below(c.len())].clone()) }
    };
    for _ in 0..8 {
        match rng.below(12) {
            0 | 1 => {
                let expected = latest.as_ref().map(|(_, v)| v.owner.clone());
                let new_owner = if rng.bool() { expected.clone().unwrap_or(me.clone()) } else { me.clone() };
                return MOp::Advance { region, expected, new_owner, tag: TAG.fetch_add(1, Ordering::Relaxed) };
            }
            2 | 3 => {
                if let Some((g, v)) = &latest {
                    if v.state == 0 || sloppy {
                        return MOp::Entry { region, gen: *g, entry: v.high + 1 + rng.below(3), owner: v.owner.clone() };
                    }
                }
            }
            4 => {
                let target = if sloppy { pick_in_state(rng, 1).or(latest.clone()) } else { latest.clone().filter(|(_, v)| v.state == 0) };
                if let Some((g, v)) = target {
                    return MOp::Seal { region, gen: g, owner: v.owner };
                }
            }
            5 | 6 => {
                if let Some((g, v)) = pick_in_state(rng, if sloppy { 0 } else { 1 }) {
                    return MOp::Flush { region, gen: g, owner: v.owner };
                }
            }
            7 => {
                if let Some((g, v)) = pick_in_state(rng, if sloppy { 1 } else { 2 }) {
                    return MOp::Merged { region, gen: g, owner: v.owner };
                }
            }
            8 => {
                if let Some((g, v)) = pick_in_state(rng, 2) {
                    *fresh += 2;
                    let ids = vec![rng.below(4) as i64, ((actor as i64) << 40) + *fresh];
                    return MOp::MergeInsert { region, gen: g, owner: v.owner, ids, salt: rng.next_u64() | 1 };
                }
            }
            9 => {
                if !gens.is_empty() {
                    let keys: Vec<u64> = gens.keys().copied().collect();
                    let g = if rng.chance(2, 3) { *keys.last().unwrap() } else { keys[rng.usize_below(keys.len())] };
                    if gens[&g].owner != me {
                        return MOp::Owner { region, gen: g, new_owner: me };
                    }
                }
            }
            10 => return MOp::Trim,
            _ => {
                if rng.chance(1, 4) {
                    *fresh += 1;
                    return MOp::TableAppend { ids: vec![((actor as i64) << 40) + *fresh] };
                }
            }
        }
    }
    MOp::Trim
}

// ---------------------------------------------------------------------------------------------
// observation of committed versions
// ---------------------------------------------------------------------------------------------

#[derive(Clone, Debug, PartialEq)]
struct GenObs {
    state: u8,
    owner: String,
    entries: String,
    mem_loc: String,
    wal_loc: String,
}

/// (region, generation) -> every entry with that id in the details list (len > 1 = duplicate)
type Snap = BTreeMap<(String, u64), Vec<GenObs>>;

fn state_rank(s: &State) -> u8 {
    match s {
        State::Open => 0,
        State::Sealed => 1,
        State::Flushed => 2,
        State::Merged => 3,
    }
}
const STATE_NAMES: [&str; 4] = ["open", "sealed", "flushed", "merged"];

async fn observe(reader: &Actor, uri: &str, v: u64) -> Result<(Snap, String), String> {
    let ds = reader.open_version(uri, v).await.map_err(|e| format!("open v{v}: {e}"))?;
    let txn = ds
        .read_transaction()
        .await
        .ok()
        .flatten()
        .map(|t| t.operation.name().to_string())
        .unwrap_or_else(|| "?".into());
    let indices = ds.load_indices().await.map_err(|e| format!("load_indices v{v}: {e}"))?;
    let mut snap = Snap::new();
    let metas: Vec<_> = indices.iter().filter(|i| i.name == MEM_WAL_INDEX_NAME).collect();
    if metas.len() > 1 {
        return Err(format!("v{v}: {} MemWAL index entries", metas.len()));
    }
    if let Some(m) = metas.first() {
        let any = m.index_details.as_ref().ok_or("MemWAL index without details")?;
        let msg = any.to_msg::<pb::MemWalIndexDetails>().map_err(|e| format!("decode details: {e}"))?;
        let details = MemWalIndexDetails::try_from(msg).map_err(|e| format!("decode details: {e}"))?;
        for w in details.mem_wal_list {
            snap.entry((w.id.region.clone(), w.id.generation)).or_default().push(GenObs {
                state: state_rank(&w.state),
                owner: w.owner_id.clone(),
                entries: format!("{:?}", w.wal_entries()),
                mem_loc: w.mem_table_location.clone(),
                wal_loc: w.wal_location.clone(),
            });
        }
    }
    Ok((snap, txn))
}

#[derive(Clone, Debug)]
struct OpRec {
    actor: usize,
    op: MOp,
    read_version: u64,
    result: Result<u64, (String, String)>,
}

impl OpRec {
    fn describe(&self) -> Value {
        json!({"actor": self.actor, "op": self.op.describe(), "read_version": self.read_version,
            "result": match &self.result { Ok(v) => json!({"ok": v}), Err((c, m)) => json!({"err": c, "msg": m.chars().take(220).collect::<String>()}) }})
    }
}

struct Checked {
    /// (version at which the finding becomes visible, finding); only the earliest is reported,
    /// later ones are usually consequences of the first
    findings: Vec<Finding>,
    at: Vec<u64>,
    versions: u64,
    generations_checked: u64,
    transitions: BTreeMap<String, u64>,
    concurrent_pairs: u64,
}

/// The offline checker. `snaps[v]` for v in 1..=latest; `ops` = client-boundary history.
fn check_history(snaps: &BTreeMap<u64, Snap>, ops: &[OpRec]) -> Checked {
    let mut c = Checked { findings: vec![], at: vec![], versions: 0, generations_checked: 0, transitions: BTreeMap::new(), concurrent_pairs: 0 };
    let mut max_ever: BTreeMap<String, u64> = BTreeMap::new();
    let mut gone: BTreeSet<(String, u64)> = BTreeSet::new();
    let mut prev: Snap = Snap::new();
    let committer: BTreeMap<u64, &OpRec> = ops.iter().filter_map(|o| o.result.as_ref().ok().map(|v| (*v, o))).collect();
    let by = |v: u64| committer.get(&v).map(|o| o.op.kind()).unwrap_or("setup");
    for (v, snap) in snaps {
        c.versions += 1;
        let mut latest: BTreeMap<&str, u64> = BTreeMap::new();
        for ((r, g), _) in snap.iter() {
            let e = latest.entry(r.as_str()).or_insert(*g);
            *e = (*e).max(*g);
        }
        for ((r, g), list) in snap.iter() {
            c.generations_checked += 1;
            if list.len() > 1 {
                c.at.push(*v);
                c.findings.push(Finding {
                    signature: format!("generation-listed-twice:{}", by(*v)),
                    what: format!("v{v}: region {r} generation {g} appears {} times in the MemWAL index", list.len()),
                    detail: json!({"version": v, "region": r, "generation": g, "states": list.iter().map(|x| STATE_NAMES[x.state as usize]).collect::<Vec<_>>()}),
                });
            }
            let cur = &list[list.len() - 1];
            let key = (r.clone(), *g);
            match prev.get(&key) {
                None => {
                    if gone.contains(&key) {
                        c.at.push(*v);
                        c.findings.push(Finding {
                            signature: "trimmed-generation-reappears".to_string(),
                            what: format!("v{v}: region {r} generation {g} was removed earlier and is back ({})", STATE_NAMES[cur.state as usize]),
                            detail: json!({"version": v, "region": r, "generation": g}),
                        });
                    } else {
                        let expect = max_ever.get(r).map(|m| m + 1).unwrap_or(0);
                        if *g != expect {
                            c.at.push(*v);
                            c.findings.push(Finding {
                                signature: format!("generation-not-consecutive:{}", by(*v)),
                                what: format!("v{v}: region {r} gets generation {g}, expected {expect}"),
                                detail: json!({"version": v, "region": r, "generation": g, "expected": expect}),
                            });
                        }
                    }
                }
                Some(p) => {
                    let p = &p[p.len() - 1];
                    if p.state != cur.state {
                        *c.transitions.entry(format!("{}->{}", STATE_NAMES[p.state as usize], STATE_NAMES[cur.state as usize])).or_insert(0) += 1;
                    }
                    if cur.state < p.state {
                        c.at.push(*v);
                        c.findings.push(Finding {
                            signature: format!("state-moves-backwards:{}->{}:{}", STATE_NAMES[p.state as usize], STATE_NAMES[cur.state as usize], by(*v)),
                            what: format!("v{v}: region {r} generation {g} went from {} to {}", STATE_NAMES[p.state as usize], STATE_NAMES[cur.state as usize]),
                            detail: json!({"version": v, "region": r, "generation": g}),
                        });
                    }
                }
            }
            let m = max_ever.entry(r.clone()).or_insert(*g);
            *m = (*m).max(*g);
            if cur.state == 0 && latest.get(r.as_str()).copied() != Some(*g) {
                c.at.push(*v);
                c.findings.push(Finding {
                    signature: format!("older-generation-open:{}", by(*v)),
                    what: format!("v{v}: region {r} generation {g} is open but generation {} exists", latest[r.as_str()]),
                    detail: json!({"version": v, "region": r, "generation": g}),
                });
            }
        }
        for (key, p) in prev.iter() {
            if !snap.contains_key(key) {
                let p = &p[p.len() - 1];
                gone.insert(key.clone());
                if p.state != 3 {
                    c.at.push(*v);
                    c.findings.push(Finding {
                        signature: format!("unmerged-generation-removed:{}:{}", STATE_NAMES[p.state as usize], by(*v)),
                        what: format!("v{v}: region {} generation {} disappeared while {}", key.0, key.1, STATE_NAMES[p.state as usize]),
                        detail: json!({"version": v, "region": key.0, "generation": key.1}),
                    });
                }
            }
        }
        prev = snap.clone();
    }
    // history rule
    let changed = |v: u64| -> (BTreeSet<(String, u64)>, BTreeSet<String>) {
        let (Some(a), Some(b)) = (snaps.get(&(v - 1)), snaps.get(&v)) else { return Default::default() };
        let mut gens = BTreeSet::new();
        let mut owners = BTreeSet::new();
        let latest_owner = |s: &Snap, r: &str| s.iter().filter(|(k, _)| k.0 == r).last().map(|(_, l)| l[l.len() - 1].owner.clone());
        for k in a.keys().chain(b.keys()) {
            let (x, y) = (a.get(k), b.get(k));
            if x != y {
                gens.insert(k.clone());
            }
        }
        let regions: BTreeSet<&String> = a.keys().chain(b.keys()).map(|k| &k.0).collect();
        for r in regions {
            let (oa, ob) = (latest_owner(a, r), latest_owner(b, r));
            if oa.is_some() && ob.is_some() && oa != ob {
                owners.insert(r.clone());
            }
        }
        (gens, owners)
    };
    let committed: Vec<&OpRec> = ops.iter().filter(|o| o.result.is_ok()).collect();
    for i in 0..committed.len() {
        for j in i + 1..committed.len() {
            let (a, b) = (committed[i], committed[j]);
            let (ca, cb) = (*a.result.as_ref().unwrap(), *b.result.as_ref().unwrap());
            if ca == cb || a.actor == b.actor {
                continue;
            }
            if !(a.read_version < cb && b.read_version < ca) {
                continue;
            }
            c.concurrent_pairs += 1;
            let (ga, oa) = changed(ca);
            let (gb, ob) = changed(cb);
            let mut kinds = [a.op.kind(), b.op.kind()];
            kinds.sort();
            let both: Vec<_> = ga.intersection(&gb).cloned().collect();
            if !both.is_empty() {
                let is_mi = |k: &str| k == "merge_insert_mark_merged";
                let class = if kinds.contains(&"trim") {
                    "trim-and-change-of-a-generation-it-removes".to_string()
                } else if is_mi(kinds[0]) && is_mi(kinds[1]) {
                    "two-merge_inserts-marked-the-same-generation-merged".to_string()
                } else if is_mi(kinds[0]) || is_mi(kinds[1]) {
                    "memwal-state-change-and-merge_insert-marking-it-merged".to_string()
                } else {
                    format!("{}+{}", kinds[0], kinds[1])
                };
                c.at.push(ca.max(cb));
                c.findings.push(Finding {
                    signature: format!("concurrent-txns-both-changed-same-generation:{class}"),
                    what: format!("v{ca} ({}, read v{}) and v{cb} ({}, read v{}) were concurrent and both changed {:?}", a.op.kind(), a.read_version, b.op.kind(), b.read_version, both),
                    detail: json!({"a": a.describe(), "b": b.describe(), "generations": both}),
                });
            }
            // both_o: regions whose active owner (owner of the latest generation) both changed
            let both_o: Vec<_> = oa.intersection(&ob).cloned().collect();
            if !both_o.is_empty() {
                c.at.push(ca.max(cb));
                c.findings.push(Finding {
                    signature: format!("concurrent-txns-both-changed-ownership-of-region:{}+{}", kinds[0], kinds[1]),
                    what: format!("v{ca} ({}) and v{cb} ({}) were concurrent and both changed the ownership in region(s) {:?}", a.op.kind(), b.op.kind(), both_o),
                    detail: json!({"a": a.describe(), "b": b.describe(), "regions": both_o}),
                });
            }
        }
    }
    c
}

// ---------------------------------------------------------------------------------------------
// one history
// ---------------------------------------------------------------------------------------------

struct EndGuard {
    sched: Arc<Sched>,
    actor: usize,
}
impl Drop for EndGuard {
    fn drop(&mut self) {
        self.sched.end(self.actor);
    }
}

static URI: AtomicU64 = AtomicU64::new(0);

struct Case {
    setup: Vec<MOp>,
    scripts: Vec<Vec<MOp>>,
    strategy: StratSpec,
}

fn gen_case(seed: u64, idx: u64) -> Case {
    let mut rng = Rng::for_case(seed, idx);
    let regions: Vec<String> = if rng.chance(2, 3) { vec!["A".into()] } else { vec!["A".into(), "B".into()] };
    // setup: ladder of generations per region
    let mut view = View::new();
    let mut setup = vec![];
    for r in &regions {
        let owner = format!("o{r}");
        let gens = rng.urange(1, 4);
        for g in 0..gens as u64 {
            let op = MOp::Advance { region: r.clone(), expected: if g == 0 { None } else { Some(owner.clone()) }, new_owner: owner.clone(), tag: TAG.fetch_add(1, Ordering::Relaxed) };
            view_apply(&mut view, &op);
            setup.push(op);
            if rng.bool() {
                let op = MOp::Entry { region: r.clone(), gen: g, entry: 1 + rng.below(3), owner: owner.clone() };
                view_apply(&mut view, &op);
                setup.push(op);
            }
        }
        // push older generations forward
        for g in 0..gens.saturating_sub(1) as u64 {
            let target = rng.below(4) as u8; // 1 sealed (already), 2 flushed, 3 merged
            if target >= 2 {
                let op = MOp::Flush { region: r.clone(), gen: g, owner: owner.clone() };
                view_apply(&mut view, &op);
                setup.push(op);
            }
            if target >= 3 {
                let op = MOp::Merged { region: r.clone(), gen: g, owner: owner.clone() };
                view_apply(&mut view, &op);
                setup.push(op);
            }
        }
        if rng.chance(1, 5) {
            let g = gens as u64 - 1;
            let op = MOp::Seal { region: r.clone(), gen: g, owner: owner.clone() };
            view_apply(&mut view, &op);
            setup.push(op);
        }
    }
    if rng.chance(1, 6) {
        view_apply(&mut view, &MOp::Trim);
        setup.push(MOp::Trim);
    }
    let n_actors = rng.urange(2, 3);
    let mut scripts = vec![];
    for a in 1..=n_actors {
        let mut v = view.clone();
        let mut s = vec![];
        let mut fresh = 0i64;
        for k in 0..rng.urange(1, 3) {
            if k > 0 && rng.chance(1, 3) {
                s.push(MOp::Refresh);
            }
            let op = plan_op(&mut rng, &v, a, &regions, &mut fresh);
            view_apply(&mut v, &op);
            s.push(op);
        }
        scripts.push(s);
    }
    let perms = permutations(n_actors);
    let strategy = match idx % 4 {
        0 => StratSpec::ActorOrder(perms[rng.usize_below(perms.len())].clone()),
        1 => StratSpec::Uniform(rng.next_u64()),
        2 => StratSpec::Pct(rng.next_u64(), rng.urange(1, 3)),
        _ => if rng.bool() { StratSpec::RoundRobin } else { StratSpec::Uniform(rng.next_u64()) },
    };
    Case { setup, scripts, strategy }
}

/// selftest corruption of the observed snapshots
#[derive(Clone, Copy, PartialEq)]
enum Corrupt {
    None,
    Backwards,
    Duplicate,
    Reappear,
}

async fn one_case(report: &Report, seed: u64, idx: u64, corrupt: Corrupt) -> Option<bool> {
    let case = gen_case(seed, idx);
    let world = World::memory();
    let a0 = Actor::new(world.new_actor(0));
    let uri = format!("memory://w{}", URI.fetch_add(1, Ordering::Relaxed));
    let rows: Vec<Row> = (0..4).map(|i| gen_row(i, 0)).collect();
    let params = WriteParams { auto_cleanup: None, ..a0.write_params(WriteMode::Create) };
    let mut ds0 = match a0.write(&uri, vec![rows_to_batch(&rows, &BASE_COLS)], params).await {
        Ok(d) => d,
        Err(e) => {
            report.harness_error(&format!("setup create: {e}"));
            return None;
        }
    };
    for op in &case.setup {
        if let Err(e) = exec(&mut ds0, &a0, op).await {
            report.count("setup_failures", 1);
            if std::env::var("E_CONC_DEBUG").is_ok() {
                eprintln!("case {idx}: setup {} failed: {e}", op.describe());
            }
            if report.counter("setup_failures") > 30 {
                report.harness_error(&format!("setup op failed repeatedly: {e}"));
            }
            return None;
        }
    }
    let base = ds0.manifest().version;
    // concurrent phase
    let n = case.scripts.len();
    let mut handles = vec![];
    for a in 1..=n {
        let actor = Actor::new(world.new_actor(a));
        // some handles are stale
        let rv = if (fnv(&[seed.to_le_bytes(), idx.to_le_bytes(), [a as u8; 8]].concat()) % 4) == 0 && base > 2 { base - 1 } else { base };
        match actor.open_version(&uri, rv).await {
            Ok(d) => handles.push((actor, d)),
            Err(e) => {
                report.harness_error(&format!("open actor: {e}"));
                return None;
            }
        }
    }
    let log_start = world.log_len();
    let sched = Sched::new();
    world.set_sched(Some(sched.clone()));
    for a in 1..=n {
        sched.begin(a);
    }
    let mut joins = vec![];
    for (i, (actor, mut ds)) in handles.into_iter().enumerate() {
        let script = case.scripts[i].clone();
        let s = sched.clone();
        joins.push(tokio::spawn(async move {
            let _g = EndGuard { sched: s, actor: i + 1 };
            let mut recs = vec![];
            for op in script {
                let rv = ds.manifest().version;
                let r = exec(&mut ds, &actor, &op).await;
                let result = match r {
                    Ok(()) => Ok(ds.manifest().version),
                    Err(e) => Err((err_class(&e).to_string(), e.to_string())),
                };
                recs.push(OpRec { actor: i + 1, op, read_version: rv, result });
            }
            recs
        }));
    }
    let out = sched.run(case.strategy.build(n), WATCHDOG).await;
    let mut ops: Vec<OpRec> = vec![];
    let mut panicked = false;
    for j in joins {
        match j.await {
            Ok(r) => ops.extend(r),
            Err(_) => panicked = true,
        }
    }
    world.set_sched(None);
    if out.watchdog_fired {
        report.inconclusive(&format!("watchdog fired in case {idx}"));
        report.count("watchdog_fired", 1);
        report.case(None);
        return None;
    }
    if panicked {
        report.count("actor_tasks_panicked", 1);
    }
    let events = world.events_since(log_start);
    // observe every version
    let reader = Actor::new(world.new_actor(0));
    let latest = match reader.open(&uri).await {
        Ok(d) => d.manifest().version,
        Err(e) => {
            report.violation("table-unreadable-after-memwal-race", &format!("{e}"), json!({"seed": seed, "case_index": idx}));
            return None;
        }
    };
    let mut snaps: BTreeMap<u64, Snap> = BTreeMap::new();
    let mut txn_names: BTreeMap<u64, String> = BTreeMap::new();
    for v in 1..=latest {
        match observe(&reader, &uri, v).await {
            Ok((s, t)) => {
                snaps.insert(v, s);
                txn_names.insert(v, t);
            }
            Err(e) => {
                report.violation("memwal-details-unreadable", &e, json!({"seed": seed, "case_index": idx, "version": v}));
                return None;
            }
        }
    }
    // "refresh" is not a transaction; an op that reports Ok must have advanced its handle
    let mut ops_txn: Vec<OpRec> = ops.iter().filter(|o| !matches!(o.op, MOp::Refresh)).cloned().collect();
    for o in ops_txn.iter_mut() {
        if let Ok(v) = o.result {
            if v == o.read_version {
                // Ok without a new version (nothing to do); not a transaction
                o.result = Err(("NoCommit".into(), "ok without new version".into()));
            }
        }
    }
    // selftest: damage the observation
    if corrupt != Corrupt::None {
        let last = latest;
        let target = snaps.get(&last).and_then(|s| s.iter().find(|(_, l)| l[0].state > 0).map(|(k, _)| k.clone()));
        let any = snaps.get(&last).and_then(|s| s.keys().next().cloned());
        match corrupt {
            Corrupt::Backwards => {
                let Some(k) = target else { return None };
                snaps.get_mut(&last).unwrap().get_mut(&k).unwrap()[0].state -= 1;
                // make sure the previous version had the higher state
                if snaps.get(&(last - 1)).and_then(|s| s.get(&k)).map(|l| l[0].state) != Some(snaps[&last][&k][0].state + 1) {
                    return None;
                }
            }
            Corrupt::Duplicate => {
                let Some(k) = any else { return None };
                let l = snaps.get_mut(&last).unwrap().get_mut(&k).unwrap();
                let d = l[0].clone();
                l.push(d);
            }
            Corrupt::Reappear => {
                let Some(k) = any else { return None };
                // remove it in the version before the last one only
                if last < 3 || !snaps[&(last - 2)].contains_key(&k) {
                    return None;
                }
                snaps.get_mut(&(last - 1)).unwrap().remove(&k);
            }
            Corrupt::None => {}
        }
        let c = check_history(&snaps, &ops_txn);
        return Some(!c.findings.is_empty());
    }
    let c = check_history(&snaps, &ops_txn);
    // evidence
    let facts = log_facts(&events);
    report.count("events", events.len() as u64);
    report.count("released_calls", out.released.len() as u64);
    report.count("nondeterministic_steps", out.nondeterministic_steps);
    report.count(&format!("histories_strategy_{}", case.strategy.family()), 1);
    report.count("versions_walked", c.versions);
    report.count("generation_states_checked", c.generations_checked);
    report.count("concurrent_committed_pairs_checked", c.concurrent_pairs);
    report.count("manifest_slot_races_lost", facts.lost_races);
    if facts.contested_slots > 0 {
        report.count("histories_with_2plus_writers_at_same_manifest_slot", 1);
    }
    for (k, n) in &c.transitions {
        report.count(&format!("transition_{k}"), *n);
    }
    let mut conflicts = 0;
    for o in &ops_txn {
        let tag = match &o.result {
            Ok(_) => "ok",
            Err((cl, _)) if is_conflict_class(cl) => {
                conflicts += 1;
                "conflict"
            }
            Err((cl, _)) if cl == "InvalidInput" || cl == "NotSupported" => {
                report.rejected();
                "rejected"
            }
            Err((cl, _)) if cl == "NoCommit" => "noop",
            Err((cl, _)) => {
                report.count(&format!("diagnostic_error_class_{cl}_{}", o.op.kind()), 1);
                "error"
            }
        };
        report.count(&format!("op_{}_{}", o.op.kind(), tag), 1);
    }
    report.count("ops_failed_with_conflict", conflicts);
    let witness = |f: &Finding| {
        json!({
            "seed": seed, "case_index": idx,
            "setup": case.setup.iter().map(|o| o.describe()).collect::<Vec<_>>(),
            "base_version": base,
            "ops": ops.iter().map(|o| o.describe()).collect::<Vec<_>>(),
            "strategy": case.strategy.name(),
            "versions": snaps.iter().map(|(v, s)| json!({"version": v, "txn": txn_names.get(v), "memwal": s.iter().map(|((r, g), l)| format!("{r}/{g}:{}:{}", l.iter().map(|x| STATE_NAMES[x.state as usize]).collect::<Vec<_>>().join("|"), l[l.len()-1].owner)).collect::<Vec<_>>()})).collect::<Vec<_>>(),
            "interleaving": out.brief(150),
            "finding": {"signature": f.signature, "what": f.what, "detail": f.detail},
        })
    };
    report.count("findings_including_consequences", c.findings.len() as u64);
    if let Some(first) = c.at.iter().enumerate().min_by_key(|(_, v)| **v).map(|(i, _)| i) {
        let f = &c.findings[first];
        report.violation(&f.signature, &f.what, witness(f));
    }
    let committed = ops_txn.iter().filter(|o| o.result.is_ok()).count();
    let nontrivial = c.concurrent_pairs > 0 || conflicts > 0;
    let mut sig = format!("{}|", out.interleaving_hash());
    for o in &ops_txn {
        sig.push_str(&format!("{}@{}->{:?};", o.op.describe(), o.read_version, o.result.as_ref().map_err(|e| e.0.clone())));
    }
    report.case(if nontrivial { Some(fnv(sig.as_bytes())) } else { None });
    INTERLEAVINGS.lock().unwrap().insert(out.interleaving_hash());
    report.count("txns_committed_in_concurrent_phase", committed as u64);
    if nontrivial && report.want_sample() && idx % 13 < 2 {
        report.sample(json!({
            "case": idx, "strategy": case.strategy.name(), "base_version": base,
            "setup": case.setup.iter().map(|o| o.describe()).collect::<Vec<_>>(),
            "ops": ops.iter().map(|o| o.describe()).collect::<Vec<_>>(),
            "final_memwal": snaps.get(&latest).map(|s| s.iter().map(|((r, g), l)| format!("{r}/{g}:{}:{}", STATE_NAMES[l[0].state as usize], l[0].owner)).collect::<Vec<_>>()),
        }));
    }
    None
}

static INTERLEAVINGS: std::sync::Mutex<BTreeSet<u64>> = std::sync::Mutex::new(BTreeSet::new());

pub fn run(args: &Args) -> i32 {
    let seed = args.seed;
    if args.extra.contains_key("selftest") {
        let rt = tokio::runtime::Builder::new_current_thread().enable_all().build().unwrap();
        let report = Report::new(args, "exploration", "selftest", (60, 60));
        let mut res = vec![];
        for (name, c) in [("state-backwards", Corrupt::Backwards), ("duplicate-generation", Corrupt::Duplicate), ("reappearing-generation", Corrupt::Reappear)] {
            let (mut fired, mut tried) = (0, 0);
            for idx in 0..40u64 {
                if let Some(f) = rt.block_on(one_case(&report, seed, idx, c)) {
                    tried += 1;
                    if f {
                        fired += 1;
                    }
                }
                if tried >= 8 {
                    break;
                }
            }
            res.push((name, fired, tried));
        }
        println!("SELFTEST C39 {}", res.iter().map(|(n, f, t)| format!("{n} {f}/{t}")).collect::<Vec<_>>().join(" "));
        return if res.iter().all(|(_, f, t)| *t > 0 && f == t) { 0 } else { 2 };
    }
    let report = Report::new(
        args,
        "exploration",
        "setup ladder of MemWAL generations on 1-2 regions, then 2-3 actors with scripts of 1-3 MemWAL operations (advance/append entry/seal/flush/mark merged/owner change/trim/merge_insert+mark merged/table append) under {every actor order, uniform, PCT, round robin}; non-trivial iff two transactions of different actors committed concurrently or an op failed with a conflict; distinct = hash(ops, read versions, results, released storage-call sequence)",
        (75, 900),
    )
    .with_min_nontrivial(50);
    let max_cases = args.tier.pick(6_000, 300_000);
    if let Some(c) = args.extra.get("case").and_then(|c| c.parse::<u64>().ok()) {
        let rt = tokio::runtime::Builder::new_current_thread().enable_all().build().unwrap();
        rt.block_on(one_case(&report, seed, c, Corrupt::None));
        return report.finish();
    }
    if let Some(path) = &args.replay {
        let txt = std::fs::read_to_string(path).unwrap_or_default();
        let v: Value = serde_json::from_str(&txt).unwrap_or_default();
        let seed = v["witness"]["seed"].as_u64().unwrap_or(args.seed);
        let idx = v["witness"]["case_index"].as_u64().unwrap_or(0);
        let rt = tokio::runtime::Builder::new_current_thread().enable_all().build().unwrap();
        for _ in 0..5 {
            rt.block_on(one_case(&report, seed, idx, Corrupt::None));
        }
        return report.finish();
    }
    let r = &report;
    run_parallel(r, 16, max_cases, |i| async move {
        one_case(r, seed, i, Corrupt::None).await;
    });
    report.set("distinct_interleavings", json!(INTERLEAVINGS.lock().unwrap().len()));
    report.finish()
}
