//! C04 — no lost updates: two committed concurrent transactions never both modify the same row.
//!
//! Generator: pairs / triples of delete, update (RewriteRows), merge_insert (full schema, upsert or
//! update-only) and partial-schema merge_insert (RewriteColumns) over id sets with a controlled
//! overlap class, 1-4 fragments, stable row ids on/off, same / different read versions, conflict
//! retries disabled (mode a) or default (mode b), every commit order (ActorOrder permutations)
//! plus uniform / PCT / round-robin schedules at storage-call granularity.
//!
//! Oracle:
//!  (a) retries disabled => each op computed its row set exactly once, at its handle's version:
//!      two Ok ops that were concurrent must have disjoint affected id sets;
//!  (b) always: every committed version equals strict serial replay (no id twice, no deleted row
//!      present, no stale read-modify-write value), an op that failed has no committed version;
//!  (c) a failing delete/update/merge_insert fails with a conflict class.

use crate::engine::*;
use serde_json::json;
use std::collections::BTreeSet;
use std::time::Duration;
use vmon::prng::Rng;
use vmon::report::{Args, Report};
use vmon::table::IdAlloc;

const OVERLAPS: [&str; 5] = ["disjoint", "one_row", "partial", "whole_fragment", "spanning"];

fn pick_kind(rng: &mut Rng) -> &'static str {
    *rng.pick_weighted(&[
        (4, "delete"),
        (4, "update"),
        (2, "merge_update"),
        (2, "merge_upsert"),
        (2, "merge_col"),
    ])
}

/// id sets (A, B) for the first two ops by overlap class, over `frags` x `rpf` initial rows
fn overlap_sets(rng: &mut Rng, class: &str, frags: usize, rpf: usize) -> (Vec<i64>, Vec<i64>, bool, bool) {
    let n = (frags * rpf) as i64;
    let rpf = rpf as i64;
    let frag_ids = |f: i64| -> Vec<i64> { (f * rpf..(f + 1) * rpf).collect() };
    let sample = |rng: &mut Rng, from: &[i64], k: usize| -> Vec<i64> {
        let idx = rng.sample_indices(from.len(), k.min(from.len()));
        let mut v: Vec<i64> = idx.into_iter().map(|i| from[i]).collect();
        v.sort();
        v
    };
    let all: Vec<i64> = (0..n).collect();
    // (a_range, b_range): render as a range predicate when the set is contiguous
    match class {
        "disjoint" => {
            // same fragment or different fragments
            let a_pool: Vec<i64> = if rng.bool() { frag_ids(rng.below(frags as u64) as i64) } else { all.clone() };
            let ka = rng.urange(1, (a_pool.len() / 2).max(1));
            let a = sample(rng, &a_pool, ka);
            let rest: Vec<i64> = all.iter().copied().filter(|i| !a.contains(i)).collect();
            let b_pool: Vec<i64> = if rng.bool() {
                let f = a[0] / rpf;
                let same: Vec<i64> = rest.iter().copied().filter(|i| i / rpf == f).collect();
                if same.is_empty() { rest.clone() } else { same }
            } else {
                rest.clone()
            };
            let kb = rng.urange(1, b_pool.len().min(4).max(1));
            let b = sample(rng, &b_pool, kb);
            (a, b, false, false)
        }
        "one_row" => {
            let shared = rng.below(n as u64) as i64;
            let rest: Vec<i64> = all.iter().copied().filter(|i| *i != shared).collect();
            let ka = rng.urange(0, 3);
            let mut a = sample(rng, &rest, ka);
            let rest2: Vec<i64> = rest.iter().copied().filter(|i| !a.contains(i)).collect();
            let kb = rng.urange(0, 3);
            let mut b = sample(rng, &rest2, kb);
            a.push(shared);
            b.push(shared);
            a.sort();
            b.sort();
            (a, b, false, false)
        }
        "partial" => {
            let ks = rng.urange(2, 3.min(n as usize));
            let shared = sample(rng, &all, ks);
            let rest: Vec<i64> = all.iter().copied().filter(|i| !shared.contains(i)).collect();
            let ka = rng.urange(1, 3);
            let mut a = sample(rng, &rest, ka);
            let rest2: Vec<i64> = rest.iter().copied().filter(|i| !a.contains(i)).collect();
            let kb = rng.urange(1, 3);
            let mut b = sample(rng, &rest2, kb);
            a.extend(&shared);
            b.extend(&shared);
            a.sort();
            b.sort();
            (a, b, false, false)
        }
        "whole_fragment" => {
            let f = rng.below(frags as u64) as i64;
            let a = frag_ids(f);
            let b = match rng.below(4) {
                0 => frag_ids(f),                                       // same whole fragment
                1 => { let k = rng.urange(1, 3); sample(rng, &a, k) }   // part of it
                2 => {                                                  // part of it + elsewhere
                    let mut b = sample(rng, &a, 1);
                    let k = rng.urange(1, 2);
                    b.extend(sample(rng, &all, k));
                    b.sort();
                    b.dedup();
                    b
                }
                _ => {                                                  // another fragment entirely (disjoint)
                    let g = (f + 1) % frags as i64;
                    if g == f { sample(rng, &a, 1) } else { frag_ids(g) }
                }
            };
            let b_range = b.len() as i64 == rpf && b.windows(2).all(|w| w[1] == w[0] + 1);
            (a, b, true, b_range)
        }
        _ => {
            // spanning: a contiguous range crossing at least one fragment boundary
            let lo = rng.below((n - 1).max(1) as u64) as i64;
            let boundary = ((lo / rpf) + 1) * rpf;
            let hi = if boundary >= n { n } else { (boundary + 1 + rng.below((n - boundary) as u64) as i64).min(n) };
            let a: Vec<i64> = (lo..hi).collect();
            let b = if rng.bool() {
                let k = rng.urange(1, 3);
                sample(rng, &a, k)
            } else {
                let mut b = sample(rng, &a, 1);
                let k = rng.urange(1, 3);
                b.extend(sample(rng, &all, k));
                b.sort();
                b.dedup();
                b
            };
            (a, b, true, false)
        }
    }
}

fn make_op(rng: &mut Rng, kind: &str, ids: Vec<i64>, as_range: bool, retries: Option<u32>, alloc: &mut IdAlloc) -> Op {
    let pred = if as_range && !ids.is_empty() && ids.windows(2).all(|w| w[1] == w[0] + 1) {
        IdPred::Range(ids[0], ids[ids.len() - 1] + 1)
    } else {
        IdPred::In(ids.clone())
    };
    match kind {
        "delete" => Op::Delete { pred, retries },
        "update" => Op::Update {
            pred,
            add: rng.range(1, 9),
            set_w: if rng.chance(1, 3) { Some(rng.range(10, 20) as i32) } else { None },
            retries,
        },
        "merge_update" => Op::Merge { ids, salt: rng.next_u64() | 1, insert: false, retries },
        "merge_upsert" => {
            let mut ids = ids;
            ids.extend(alloc.take(rng.urange(0, 2)));
            Op::Merge { ids, salt: rng.next_u64() | 1, insert: true, retries }
        }
        _ => Op::MergeCol {
            ids,
            col: if rng.bool() { "v" } else { "w" },
            salt: rng.next_u64() | 1,
            retries,
        },
    }
}

/// Keep the workload phantom-free (see NOTES.md): an upsert must not re-insert a key that another
/// op deletes when a third op addresses the same key.
pub fn sanitize_phantoms(pre_ops: &[Op], actors: &mut [(u64, Op)], n_initial: i64) {
    let snapshot: Vec<Op> = pre_ops.iter().cloned().chain(actors.iter().map(|a| a.1.clone())).collect();
    for (k, (_, op)) in actors.iter_mut().enumerate() {
        if let Op::Merge { ids, insert: true, .. } = op {
            ids.retain(|id| {
                if *id >= n_initial {
                    return true; // fresh
                }
                let touching = snapshot.iter().filter(|o| o.addresses(*id)).count();
                let deleter = snapshot
                    .iter()
                    .any(|o| matches!(o, Op::Delete { pred, .. } if pred.matches(*id)));
                !(deleter && touching >= 3)
            });
            if ids.is_empty() {
                // a fresh key nobody else uses (per actor: two upserts inserting the same new key are a
                // phantom, outside the strict class)
                ids.push(n_initial + (1 << 39) + ((k as i64 + 1) << 20));
            }
        }
    }
}

pub fn gen_case(seed: u64, idx: u64, thorough: bool) -> (HistorySpec, String, bool) {
    let mut rng = Rng::for_case(seed, idx);
    let frags = rng.urange(1, 4);
    let rpf = *rng.pick(&[4usize, 6, 10]);
    let n_ops = if rng.chance(2, 3) { 2 } else { 3 };
    let class = OVERLAPS[(idx % OVERLAPS.len() as u64) as usize];
    let no_retry = rng.chance(1, 2);
    let (a, b, a_range, b_range) = overlap_sets(&mut rng, class, frags, rpf);
    let n = (frags * rpf) as i64;

    // optional setup versions so that handles can start from different read versions
    let mut pre_ops = vec![];
    let mut pre_alloc = IdAlloc::new(8);
    // a BTree on the key makes merge_insert join through the index (and through the row-id index
    // when stable row ids are on)
    if idx % 4 == 3 {
        pre_ops.push(Op::CreateIndex { col: "id", name: "idx_id".into() });
    }
    if rng.chance(1, 2) {
        match rng.below(3) {
            0 => pre_ops.push(Op::Append { ids: pre_alloc.take(rng.urange(1, 3)), salt: 77 }),
            1 => pre_ops.push(Op::Delete { pred: IdPred::In(vec![rng.below(n as u64) as i64]), retries: None }),
            _ => pre_ops.push(Op::Update { pred: IdPred::In(vec![rng.below(n as u64) as i64]), add: 100, set_w: None, retries: None }),
        }
    }
    let base = 1 + pre_ops.len() as u64;
    let mut actors = vec![];
    for k in 0..n_ops {
        let kind = pick_kind(&mut rng);
        let mut alloc = IdAlloc::new(k + 1);
        let retries = if no_retry { Some(0) } else if rng.chance(1, 4) { Some(2) } else { None };
        let (ids, as_range) = match k {
            0 => (a.clone(), a_range),
            1 => (b.clone(), b_range),
            _ => {
                let kk = rng.urange(1, 4);
                let mut v: Vec<i64> = rng.sample_indices(n as usize, kk).into_iter().map(|x| x as i64).collect();
                v.sort();
                (v, false)
            }
        };
        // swap roles sometimes so that the "big" set is not always actor 1
        let op = make_op(&mut rng, kind, ids, as_range, retries, &mut alloc);
        let rv = if rng.chance(1, 3) { rng.range(1, base as i64) as u64 } else { base };
        actors.push((rv, op));
    }
    if rng.bool() {
        actors.swap(0, 1);
    }
    sanitize_phantoms(&pre_ops, &mut actors, n);
    let perms = permutations(n_ops);
    let strategy = match idx / OVERLAPS.len() as u64 % 4 {
        0 => StratSpec::ActorOrder(perms[rng.usize_below(perms.len())].clone()),
        1 => StratSpec::Uniform(rng.next_u64()),
        2 => StratSpec::Pct(rng.next_u64(), rng.urange(1, 3)),
        _ => {
            if thorough || rng.bool() {
                StratSpec::RoundRobin
            } else {
                StratSpec::Uniform(rng.next_u64())
            }
        }
    };
    let spec = HistorySpec {
        name: format!("c04-{seed}-{idx}"),
        // (stable row ids + BTree on `id` was switched off until batch 4 fixed mask_to_offset_ranges;
        // E_CONC_NO_STABLE_WITH_ID_INDEX=1 restores the restriction)
        stable_row_ids: if idx % 4 == 3 && std::env::var("E_CONC_NO_STABLE_WITH_ID_INDEX").is_ok() { let _ = rng.bool(); false } else { rng.bool() },
        v2_manifest_paths: rng.chance(1, 4),
        frags,
        rows_per_frag: rpf,
        pre_ops,
        actors,
        strategy,
    };
    (spec, class.to_string(), no_retry)
}

/// (a): with retries disabled, concurrent Ok ops must have disjoint affected sets.
pub fn check_disjoint_ok(out: &HistoryOutcome, sc: &SerialCheck) -> Vec<Finding> {
    let mut f = vec![];
    let committed: Vec<(usize, u64)> = sc.commit_order.iter().filter(|x| x.2).map(|(v, i, _)| (*i, *v)).collect();
    let affected = |i: usize| -> Option<BTreeSet<i64>> {
        let r = &out.results[i];
        if r.op.retries() != Some(0) || !r.op.is_row_mutation() || r.result.is_err() {
            return None;
        }
        let mut m = sc.states.get(&r.read_version)?.clone();
        m.apply(&r.op, &sc.states).ok().map(|e| e.modified)
    };
    for x in 0..committed.len() {
        for y in x + 1..committed.len() {
            let (i, ci) = committed[x];
            let (j, cj) = committed[y];
            let (ri, rj) = (out.results[i].read_version, out.results[j].read_version);
            if !(ri < cj && rj < ci) {
                continue; // not concurrent
            }
            if let (Some(ai), Some(aj)) = (affected(i), affected(j)) {
                let both: Vec<i64> = ai.intersection(&aj).copied().collect();
                if !both.is_empty() {
                    let mut kinds = [out.results[i].op.kind(), out.results[j].op.kind()];
                    kinds.sort();
                    f.push(Finding {
                        signature: format!("both-committed-same-row:{}+{}", kinds[0], kinds[1]),
                        what: format!(
                            "two concurrent transactions without retries both returned Ok (v{ci}, v{cj}) and both modified ids {both:?}"
                        ),
                        detail: json!({"ids": both, "a": out.results[i].describe(), "b": out.results[j].describe()}),
                    });
                }
            }
        }
    }
    f
}

pub fn check_error_classes(out: &HistoryOutcome) -> Vec<Finding> {
    let mut f = vec![];
    for r in &out.results {
        if let Err((c, m)) = &r.result {
            if r.op.is_row_mutation() && !is_conflict_class(c) {
                let key_index = out.spec.pre_ops.iter().any(|o| matches!(o, Op::CreateIndex { col: "id", .. }));
                if (c == "Panic" || m.contains("RecvError")) && key_index && out.spec.stable_row_ids {
                    // `RecvError` is the consequence of a panic on Lance's CPU pool: attribute to the first one
                    let first = panics_between(out.window.0, out.window.1);
                    if first.iter().any(|l| l.contains("lance-table/src/rowids/segment.rs")) {
                        f.push(Finding {
                            signature: "panic:rowid-segment-mask-with-unsorted-deletions".into(),
                            what: format!("{} died ({}) after a panic in U64Segment::mask while the deletion allow-list was built; panics in the window: {first:?}", r.op.kind(), m.chars().take(120).collect::<String>()),
                            detail: json!({"op": r.describe(), "panics": first}),
                        });
                        continue;
                    }
                }
                let column_rewrite_committed = out.spec.pre_ops.iter().any(|o| matches!(o, Op::MergeCol { .. }))
                    || out.results.iter().any(|x| x.result.is_ok() && matches!(x.op, Op::MergeCol { .. }));
                if key_index
                    && out.spec.stable_row_ids
                    && (m.contains("rowid not found in index") || m.contains("Attempt to merge two RecordBatch with different sizes"))
                {
                    f.push(Finding {
                        signature: "retried-merge_insert-through-key-index-fails:stable-row-ids".into(),
                        what: format!("{} lost a race and its re-execution through the key index failed with {c}: {}", r.op.kind(), m.chars().take(160).collect::<String>()),
                        detail: json!({"op": r.describe()}),
                    });
                    continue;
                }
                if m.contains("Ambiguous merge insert")
                    || (key_index
                        && column_rewrite_committed
                        && (m.contains("Attempt to merge two RecordBatch with different sizes")
                            || m.contains("The input to a take operation specified fragment id")))
                {
                    // our sources never hold a key twice: the duplicate comes from Lance's own join
                    f.push(Finding {
                        signature: "merge_insert-through-key-index-reports-ambiguous-match".into(),
                        what: format!("{} (source keys are unique) failed with {c}: {}", r.op.kind(), m.chars().take(160).collect::<String>()),
                        detail: json!({"op": r.describe()}),
                    });
                    continue;
                }
                if m.contains("rowid not found in index") {
                    f.push(Finding {
                        signature: "retried-merge_insert-fails-with-internal-error:rowid-not-found-in-index".into(),
                        what: format!("{} lost a race and its re-execution failed with {c}: {}", r.op.kind(), m.chars().take(160).collect::<String>()),
                        detail: json!({"op": r.describe()}),
                    });
                    continue;
                }
                f.push(Finding {
                    signature: format!("loser-fails-with-non-conflict-error:{}:{}", r.op.kind(), c),
                    what: format!("{} failed with {c} instead of a commit conflict: {}", r.op.kind(), m.chars().take(200).collect::<String>()),
                    detail: json!({"op": r.describe()}),
                });
            }
        }
    }
    f
}

pub fn witness(out: &HistoryOutcome, seed: u64, idx: u64, extra: serde_json::Value, f: &Finding) -> serde_json::Value {
    json!({
        "seed": seed, "case_index": idx, "history": out.spec.describe(),
        "results": out.results.iter().map(|r| r.describe()).collect::<Vec<_>>(),
        "base_version": out.base_version,
        "interleaving": out.sched.brief(200),
        "class": extra,
        "finding": {"signature": f.signature, "what": f.what, "detail": f.detail},
    })
}

async fn one_case(report: &Report, seed: u64, idx: u64, thorough: bool) {
    let (spec, class, no_retry) = gen_case(seed, idx, thorough);
    let t0 = std::time::Instant::now();
    let out = match run_history(&spec, WATCHDOG).await {
        Ok(o) => o,
        Err(e) => {
            report.count("setup_failures", 1);
            if report.counter("setup_failures") > 20 {
                report.harness_error(&format!("setup failed repeatedly: {e}"));
            }
            return;
        }
    };
    if out.sched.watchdog_fired {
        report.inconclusive(&format!("watchdog fired in case {idx}"));
        report.count("watchdog_fired", 1);
        report.case(None);
        return;
    }
    let facts = log_facts(&out.events);
    let t1 = std::time::Instant::now();
    let sc = check_serial(&out, None).await;
    if let Some(e) = &sc.harness_error {
        report.harness_error(&format!("case {idx}: {e}"));
        return;
    }
    if (t1 - t0).as_millis() > 3000 {
        report.count("histories_over_3s", 1);
        if std::env::var("E_CONC_DEBUG").is_ok() {
            eprintln!("slow case {idx}: {} ms nondet={} released={} {}", (t1 - t0).as_millis(), out.sched.nondeterministic_steps, out.sched.released.len(), serde_json::to_string(&out.results.iter().map(|r| r.describe()).collect::<Vec<_>>()).unwrap());
        }
    }
    report.count("ms_run_history", (t1 - t0).as_millis() as u64);
    report.count("ms_check", t1.elapsed().as_millis() as u64);
    count_history(report, &out, &facts);
    report.count("rows_compared", sc.rows_compared);
    report.count("versions_compared", sc.versions_compared);
    report.count(&format!("overlap_{class}"), 1);
    report.count(if no_retry { "mode_a_no_retries" } else { "mode_b_retries" }, 1);
    let mut findings = sc.findings.clone();
    reclassify_key_index_merge(&out, &mut findings);
    if findings.is_empty() {
        let (f, n) = aftermath(&out, &sc).await;
        report.count("aftermath_rows_compared", n);
        findings.extend(f);
    }
    let a = check_disjoint_ok(&out, &sc);
    if no_retry {
        let concurrent_ok_pairs = sc.commit_order.len().saturating_sub(1) as u64;
        report.count("mode_a_ok_pairs_checked", concurrent_ok_pairs);
    }
    findings.extend(a);
    findings.extend(check_error_classes(&out));
    for f in &findings {
        report.violation(&f.signature, &f.what, witness(&out, seed, idx, json!({"overlap": class, "no_retry": no_retry}), f));
    }
    let nontrivial = exercised_concurrency(&out);
    report.case(if nontrivial { Some(shape_hash(&out)) } else { None });
    note_interleaving(&out, &facts);
    if nontrivial && report.want_sample() {
        report.sample(json!({
            "case": idx, "overlap": class, "no_retry": no_retry,
            "history": out.spec.describe(),
            "results": out.results.iter().map(|r| r.describe()).collect::<Vec<_>>(),
            "commit_order": sc.commit_order.iter().map(|(v,i,_)| json!({"version": v, "actor": out.results[*i].actor})).collect::<Vec<_>>(),
            "interleaving_head": out.sched.brief(25),
        }));
    }
}

pub fn run(args: &Args) -> i32 {
    if args.extra.contains_key("selftest") {
        return selftest(args);
    }
    let report = Report::new(
        args,
        "exploration",
        "seeded pairs/triples of delete/update/merge_insert over id sets with overlap class {disjoint,1 row,partial,whole fragment,spanning} x retries {0,default} x schedule {every actor order, uniform, PCT, round robin}; a case is non-trivial iff an op committed over a concurrent transaction or failed with a conflict; distinct = hash(ops, read versions, results, released storage-call sequence)",
        (75, 900),
    )
    .with_min_nontrivial(50);
    let thorough = args.tier == vmon::report::Tier::Thorough;
    // quick: a fixed case set per seed (reached in ~40 s on an idle 16-core machine); the budget is only a safety cap
    let max_cases = args.tier.pick(2_400, 200_000);
    let seed = args.seed;
    if let Some(path) = &args.replay {
        return replay(args, &report, path);
    }
    if let Some(c) = args.extra.get("case").and_then(|c| c.parse::<u64>().ok()) {
        let rt = tokio::runtime::Builder::new_current_thread().enable_all().build().unwrap();
        rt.block_on(one_case(&report, seed, c, thorough));
        return report.finish();
    }
    run_parallel(&report, 16, max_cases, |i| one_case(&report, seed, i, thorough));
    publish_interleavings(&report);
    report.finish()
}

fn replay(args: &Args, report: &Report, path: &str) -> i32 {
    let Ok(txt) = std::fs::read_to_string(path) else {
        report.harness_error("cannot read replay file");
        return report.finish();
    };
    let v: serde_json::Value = serde_json::from_str(&txt).unwrap_or_default();
    let seed = v["witness"]["seed"].as_u64().unwrap_or(args.seed);
    let idx = v["witness"]["case_index"].as_u64().unwrap_or(0);
    let thorough = v["tier"].as_str() == Some("thorough");
    let rt = tokio::runtime::Builder::new_current_thread().enable_all().build().unwrap();
    for _ in 0..10 {
        rt.block_on(one_case(report, seed, idx, thorough));
    }
    report.finish()
}

/// Selftest: damage the observation of the final version and require the oracle to fire.
fn selftest(args: &Args) -> i32 {
    let rt = tokio::runtime::Builder::new_current_thread().enable_all().build().unwrap();
    let mut fired = [0u32; 3];
    let mut tried = [0u32; 3];
    for idx in 0..30u64 {
        let (spec, _, _) = gen_case(args.seed, idx, false);
        let Ok(out) = rt.block_on(run_history(&spec, WATCHDOG)) else { continue };
        let clean = rt.block_on(check_serial(&out, None));
        if !clean.findings.is_empty() || clean.harness_error.is_some() || clean.commit_order.is_empty() {
            continue;
        }
        let m = (idx % 3) as usize;
        let corrupt: Box<dyn Fn(&mut Observed) + Sync> = match m {
            0 => Box::new(|o: &mut Observed| { o.rows.pop(); }),
            1 => Box::new(|o: &mut Observed| { if let Some(r) = o.rows.first().cloned() { o.rows.push(r); } }),
            _ => Box::new(|o: &mut Observed| {
                if let Some(r) = o.rows.first_mut() {
                    if let vmon::table::Cell::Int(x) = r[1] { r[1] = vmon::table::Cell::Int(x - 1); }
                }
            }),
        };
        let sc = rt.block_on(check_serial(&out, Some(&*corrupt)));
        tried[m] += 1;
        // an empty final table cannot lose a row / change a value
        let empty = clean.states.get(&clean.final_version).map(|s| s.rows.is_empty()).unwrap_or(false);
        if !sc.findings.is_empty() || empty {
            fired[m] += 1;
        }
    }
    println!("SELFTEST C04 dropped-row {}/{} duplicated-row {}/{} stale-value {}/{}", fired[0], tried[0], fired[1], tried[1], fired[2], tried[2]);
    if fired == tried && tried.iter().all(|t| *t > 0) { 0 } else { 2 }
}

