//! C03, phantom-prone class: predicates on *mutable* columns (`w = k`, `v >= k`, `v < k`) racing with
//! updates of those columns and with appends whose rows satisfy the predicate. Strict serial replay
//! is not the unique admissible outcome here: delete / update re-execute on a later version after a
//! retryable conflict, and the client cannot see which read version the committed attempt used.
//!
//! Oracle (DESIGN §4 C03): an op committed at version c, called on a handle at version s, may have
//! been evaluated at any read version r in [s, c-1] **provided no transaction committed in (r, c-1]
//! changed a row of the op's write set at r**; its effect is then "the rows selected at r, transformed
//! as the op says" applied to the state c-1. All admissible paths are enumerated (<= 4 ops, <= 5
//! versions each) and filtered version by version against the scans of the committed versions; an
//! empty path set is the violation `no-admissible-serial-outcome:<kind>`.

use crate::c04::witness;
use crate::engine::*;
use serde_json::json;
use std::collections::{BTreeMap, BTreeSet};
use vmon::prng::Rng;
use vmon::report::Report;
use vmon::table::{Actor, IdAlloc};

fn col_pred(rng: &mut Rng) -> IdPred {
    match rng.below(3) {
        0 => IdPred::Col("w", "=", rng.range(0, 6)),
        1 => IdPred::Col("v", ">=", rng.range(20, 45)),
        _ => IdPred::Col("v", "<", rng.range(5, 30)),
    }
}

pub fn gen_case(seed: u64, idx: u64) -> HistorySpec {
    let mut rng = Rng::for_case(seed ^ 0x5eed_f00d, idx);
    let frags = rng.urange(1, 3);
    let rpf = *rng.pick(&[4usize, 6, 10]);
    let n = (frags * rpf) as i64;
    let n_ops = rng.urange(2, 4);
    let mut pre_ops = vec![];
    let mut pre_alloc = IdAlloc::new(8);
    for _ in 0..rng.urange(0, 2) {
        pre_ops.push(match rng.below(3) {
            0 => Op::Append { ids: pre_alloc.take(rng.urange(1, 3)), salt: 77 },
            1 => Op::Update { pred: col_pred(&mut rng), add: 3, set_w: Some(rng.range(0, 6) as i32), retries: None },
            _ => Op::Delete { pred: IdPred::In(vec![rng.below(n as u64) as i64]), retries: None },
        });
    }
    let base = 1 + pre_ops.len() as u64;
    let mut actors = vec![];
    for k in 0..n_ops {
        let mut alloc = IdAlloc::new(k + 1);
        let retries = if rng.chance(1, 4) { Some(0) } else { None };
        let op = match rng.below(10) {
            0 | 1 => Op::Append { ids: alloc.take(rng.urange(1, 4)), salt: rng.next_u64() | 1 },
            2 | 3 | 4 => Op::Delete { pred: col_pred(&mut rng), retries },
            5 | 6 | 7 => Op::Update {
                pred: col_pred(&mut rng),
                add: rng.range(1, 15),
                set_w: if rng.bool() { Some(rng.range(0, 6) as i32) } else { None },
                retries,
            },
            8 => Op::Update { pred: IdPred::In(vec![rng.below(n as u64) as i64, rng.below(n as u64) as i64]), add: rng.range(1, 15), set_w: Some(rng.range(0, 6) as i32), retries },
            _ => Op::Compact { defer_remap: false },
        };
        let rv = if rng.chance(1, 3) { rng.range(1, base as i64) as u64 } else { base };
        actors.push((rv, op));
    }
    let perms = permutations(n_ops);
    let strategy = match idx % 4 {
        0 => StratSpec::ActorOrder(perms[rng.usize_below(perms.len())].clone()),
        1 => StratSpec::Uniform(rng.next_u64()),
        2 => StratSpec::Pct(rng.next_u64(), rng.urange(1, 3)),
        _ => StratSpec::RoundRobin,
    };
    HistorySpec {
        name: format!("c03p-{seed}-{idx}"),
        stable_row_ids: rng.bool(),
        v2_manifest_paths: false,
        frags,
        rows_per_frag: rpf,
        pre_ops,
        actors,
        strategy,
    }
}

/// ids whose row image differs between two states (changed, inserted or removed)
fn changed_ids(a: &Model, b: &Model) -> BTreeSet<i64> {
    let mut s = BTreeSet::new();
    for (id, r) in &a.rows {
        if b.rows.get(id) != Some(r) {
            s.insert(*id);
        }
    }
    for id in b.rows.keys() {
        if !a.rows.contains_key(id) {
            s.insert(*id);
        }
    }
    s
}

/// `op` restricted to the rows it selected at its read version
fn restricted(op: &Op, ids: Vec<i64>) -> Op {
    match op {
        Op::Delete { retries, .. } => Op::Delete { pred: IdPred::In(ids), retries: *retries },
        Op::Update { add, set_w, retries, .. } => Op::Update { pred: IdPred::In(ids), add: *add, set_w: *set_w, retries: *retries },
        other => other.clone(),
    }
}

pub struct Admissible {
    pub findings: Vec<Finding>,
    pub paths_max: usize,
    pub rows_compared: u64,
    pub ambiguous_versions: u64,
}

pub async fn check_admissible(out: &HistoryOutcome, sc: &SerialCheck, corrupt: bool) -> Admissible {
    let mut res = Admissible { findings: vec![], paths_max: 1, rows_compared: 0, ambiguous_versions: 0 };
    let reader = Actor::new(out.world.new_actor(0));
    let ops: Vec<&Op> = out.results.iter().map(|r| &r.op).collect();
    // a path = model per version (setup versions are shared and deterministic)
    let mut paths: Vec<BTreeMap<u64, Model>> = vec![out.setup_states.clone()];
    let n = sc.commit_order.len();
    for (k, (c, i, effective)) in sc.commit_order.iter().enumerate() {
        let r = &out.results[*i];
        let mut next: Vec<BTreeMap<u64, Model>> = vec![];
        for p in &paths {
            let prev = p[&(c - 1)].clone();
            if !effective {
                let mut q = p.clone();
                q.insert(*c, prev);
                next.push(q);
                continue;
            }
            let lo = r.read_version.max(1);
            let select_based = matches!(r.op, Op::Delete { .. } | Op::Update { .. });
            let candidates: Vec<u64> = if select_based { (lo..*c).collect() } else { vec![c - 1] };
            for rv in candidates {
                let Some(at_r) = p.get(&rv) else { continue };
                let op = if select_based {
                    let ids = match &r.op {
                        Op::Delete { pred, .. } | Op::Update { pred, .. } => at_r.select(pred),
                        _ => vec![],
                    };
                    // conflict rule: nothing committed in (rv, c-1] changed a row of the write set
                    let ws: BTreeSet<i64> = ids.iter().copied().collect();
                    let mut ok = true;
                    for u in rv + 1..*c {
                        if let (Some(a), Some(b)) = (p.get(&(u - 1)), p.get(&u)) {
                            if changed_ids(a, b).intersection(&ws).next().is_some() {
                                ok = false;
                                break;
                            }
                        }
                    }
                    if !ok {
                        continue;
                    }
                    restricted(&r.op, ids)
                } else {
                    r.op.clone()
                };
                let mut m = prev.clone();
                if m.apply(&op, p).is_err() {
                    continue;
                }
                let mut q = p.clone();
                q.insert(*c, m);
                if !next.iter().any(|x| x == &q) {
                    next.push(q);
                }
            }
        }
        res.paths_max = res.paths_max.max(next.len());
        let distinct_now: BTreeSet<String> = next.iter().map(|p| format!("{:?}", p[c].rows)).collect();
        if distinct_now.len() > 1 {
            res.ambiguous_versions += 1;
        }
        // filter by the observation of version c
        let mut obs = match observe_version(&reader, &out.uri, *c).await {
            Ok(o) => o,
            Err(e) => {
                res.findings.push(Finding {
                    signature: format!("committed-version-unreadable:{}:phantom-class", r.op.kind()),
                    what: format!("version {c}: {e}"),
                    detail: json!({}),
                });
                return res;
            }
        };
        if corrupt && k + 1 == n {
            if let Some(row) = obs.rows.first_mut() {
                row[1] = match &row[1] {
                    vmon::table::Cell::Int(x) => vmon::table::Cell::Int(x - 1),
                    _ => vmon::table::Cell::Int(0),
                };
            }
        }
        res.rows_compared += obs.rows.len() as u64;
        let mut kept = vec![];
        let mut first_diff: Option<Vec<Finding>> = None;
        for p in next {
            let d = diff_state(&p[c], &obs, &ops, &format!("v{c}"));
            if d.is_empty() {
                kept.push(p);
            } else if first_diff.is_none() {
                first_diff = Some(d);
            }
        }
        if kept.is_empty() {
            let d = first_diff.unwrap_or_default();
            res.findings.push(Finding {
                signature: format!("no-admissible-serial-outcome:{}", r.op.kind()),
                what: format!(
                    "v{c} committed by {} (handle at v{}): the scan matches none of the admissible outcomes (read versions {}..{}); closest: {}",
                    r.op.kind(),
                    r.read_version,
                    r.read_version,
                    c - 1,
                    d.first().map(|f| f.what.clone()).unwrap_or_else(|| "no candidate passed the conflict rule".into())
                ),
                detail: json!({"version": c, "op": r.describe(), "closest": d.iter().map(|f| json!({"sig": f.signature, "detail": f.detail})).collect::<Vec<_>>()}),
            });
            return res;
        }
        paths = kept;
    }
    res
}

pub async fn one_case(report: &Report, seed: u64, idx: u64, corrupt: bool) -> Option<bool> {
    let spec = gen_case(seed, idx);
    let out = match run_history(&spec, WATCHDOG).await {
        Ok(o) => o,
        Err(e) => {
            report.count("setup_failures", 1);
            if std::env::var("E_CONC_DEBUG").is_ok() {
                eprintln!("phantom setup failure case {idx}: {e}");
            }
            return None;
        }
    };
    if out.sched.watchdog_fired {
        report.inconclusive(&format!("watchdog fired in phantom case {idx}"));
        report.count("watchdog_fired", 1);
        report.case(None);
        return None;
    }
    let facts = log_facts(&out.events);
    let sc = check_serial_opt(&out, None, false).await;
    if let Some(e) = &sc.harness_error {
        report.harness_error(&format!("phantom case {idx}: {e}"));
        return None;
    }
    let adm = check_admissible(&out, &sc, corrupt).await;
    if corrupt {
        if sc.commit_order.is_empty() {
            return None;
        }
        return Some(!adm.findings.is_empty());
    }
    count_history(report, &out, &facts);
    note_interleaving(&out, &facts);
    report.count("phantom_class_histories", 1);
    report.count("phantom_class_versions_with_more_than_one_admissible_outcome", adm.ambiguous_versions);
    report.count("rows_compared", adm.rows_compared);
    let mut findings = sc.findings.clone();
    findings.extend(adm.findings);
    for f in &findings {
        report.violation(&f.signature, &f.what, witness(&out, seed, idx, json!({"class": "phantom-prone"}), f));
    }
    let nontrivial = exercised_concurrency(&out);
    report.case(if nontrivial { Some(shape_hash(&out) ^ 0x9e37) } else { None });
    None
}
