//! Shared E-CONC machinery: a small fixed-schema table with a unique `id` key, an operation
//! language over the public Lance write API, a row-level model of those operations, a history
//! runner (2-4 actors under the vmon gate scheduler on one shared in-memory world) and the
//! strict-serial-replay checker used by C03 / C04 (and parts of C24).
//!
//! Everything the checker uses is observed at the client boundary (results, versions, scans of
//! committed versions) plus the store log (who created which `_versions/N.manifest`).

use arrow_array::{ArrayRef, Int32Array, Int64Array, RecordBatch, RecordBatchIterator, StringArray};
use arrow_schema::{DataType, Field, Schema, SchemaRef};
use futures::TryStreamExt;
use lance::dataset::optimize::{compact_files, CompactionOptions};
use lance::dataset::{
    DeleteBuilder, InsertBuilder, MergeInsertBuilder, NewColumnTransform, UpdateBuilder, WhenMatched,
    WhenNotMatched, WriteDestination, WriteMode, WriteParams,
};
use lance_index::DatasetIndexExt;
use lance::Dataset;
use lance_index::optimize::OptimizeOptions;
use lance_index::scalar::ScalarIndexParams;
use lance_index::IndexType;
use serde_json::{json, Value};
use std::collections::{BTreeMap, BTreeSet};
use std::sync::atomic::{AtomicU64, Ordering};
use std::sync::Arc;
use std::time::Duration;
use vmon::prng::{fnv, Rng};
use vmon::report::Report;
use vmon::store::{Event, Kind, Sched, SchedOutcome, Strategy, World};
use vmon::table::{batch_to_rows, Actor, Cell, Row};

// -------------------------------------------------------------------------------------------
// table
// -------------------------------------------------------------------------------------------

pub const BASE_COLS: [&str; 4] = ["id", "v", "w", "s"];
const WORDS: [&str; 6] = ["a", "b", "ab", "zeta", "", "é"];

pub fn base_schema() -> SchemaRef {
    Arc::new(Schema::new(vec![
        Field::new("id", DataType::Int64, false),
        Field::new("v", DataType::Int64, true),
        Field::new("w", DataType::Int32, true),
        Field::new("s", DataType::Utf8, true),
    ]))
}

/// Deterministic full row for `id` under `salt` (so that ops are describable by ids + salt).
pub fn gen_row(id: i64, salt: u64) -> Row {
    let h = fnv(&[id.to_le_bytes(), salt.to_le_bytes()].concat());
    let v = (h % 50) as i128;
    let w = if (h >> 8) % 5 == 0 {
        Cell::Null
    } else {
        Cell::Int(((h >> 16) % 7) as i128)
    };
    let s = if (h >> 24) % 6 == 0 {
        Cell::Null
    } else {
        Cell::Str(WORDS[((h >> 32) % WORDS.len() as u64) as usize].to_string())
    };
    vec![Cell::Int(id as i128), Cell::Int(v), w, s]
}

fn col_array(name: &str, cells: &[&Cell]) -> ArrayRef {
    match name {
        "id" | "v" => Arc::new(Int64Array::from(
            cells.iter().map(|c| c.as_i64()).collect::<Vec<Option<i64>>>(),
        )),
        "w" => Arc::new(Int32Array::from(
            cells
                .iter()
                .map(|c| c.as_i64().map(|x| x as i32))
                .collect::<Vec<Option<i32>>>(),
        )),
        "s" => Arc::new(StringArray::from(
            cells
                .iter()
                .map(|c| match c {
                    Cell::Str(s) => Some(s.clone()),
                    _ => None,
                })
                .collect::<Vec<Option<String>>>(),
        )),
        other => panic!("col_array: unknown column {other}"),
    }
}

/// Batch over a subset of the base columns (`cols` in order); rows are full base rows.
pub fn rows_to_batch(rows: &[Row], cols: &[&str]) -> RecordBatch {
    let base = base_schema();
    let mut fields = vec![];
    let mut arrays = vec![];
    for c in cols {
        let k = BASE_COLS.iter().position(|b| b == c).expect("base col");
        fields.push(base.field(k).clone());
        let cells: Vec<&Cell> = rows.iter().map(|r| &r[k]).collect();
        arrays.push(col_array(c, &cells));
    }
    RecordBatch::try_new(Arc::new(Schema::new(fields)), arrays).expect("batch")
}

// -------------------------------------------------------------------------------------------
// operations
// -------------------------------------------------------------------------------------------

#[derive(Clone, Debug, PartialEq)]
pub enum IdPred {
    In(Vec<i64>),
    /// lo <= id < hi
    Range(i64, i64),
    /// predicate on a *mutable* column (phantom-prone class only): `col = k` / `col >= k` / `col < k`
    Col(&'static str, &'static str, i64),
}

impl IdPred {
    pub fn sql(&self) -> String {
        match self {
            IdPred::In(v) if v.len() == 1 => format!("id = {}", v[0]),
            IdPred::In(v) => format!(
                "id IN ({})",
                v.iter().map(|x| x.to_string()).collect::<Vec<_>>().join(",")
            ),
            IdPred::Range(lo, hi) => format!("id >= {lo} AND id < {hi}"),
            IdPred::Col(c, op, k) => format!("{c} {op} {k}"),
        }
    }
    /// full evaluation on a row (`v_w` = current values of base columns v and w, None = NULL / dropped)
    pub fn selects(&self, id: i64, v: Option<i64>, w: Option<i64>) -> bool {
        match self {
            IdPred::Col(c, op, k) => {
                let x = if *c == "v" { v } else { w };
                match (x, *op) {
                    (Some(x), "=") => x == *k,
                    (Some(x), ">=") => x >= *k,
                    (Some(x), "<") => x < *k,
                    _ => false, // NULL never satisfies a comparison
                }
            }
            _ => self.matches(id),
        }
    }
    pub fn matches(&self, id: i64) -> bool {
        match self {
            IdPred::In(v) => v.contains(&id),
            IdPred::Range(lo, hi) => id >= *lo && id < *hi,
            // not decidable from the key alone (see `selects`)
            IdPred::Col(..) => false,
        }
    }
    pub fn ids_in(&self, universe: impl Iterator<Item = i64>) -> BTreeSet<i64> {
        universe.filter(|i| self.matches(*i)).collect()
    }
}

#[derive(Clone, Debug)]
pub enum Op {
    Append { ids: Vec<i64>, salt: u64 },
    Delete { pred: IdPred, retries: Option<u32> },
    /// `v = v + add` and optionally `w = <lit>` on the rows selected by `pred` (RewriteRows)
    Update { pred: IdPred, add: i64, set_w: Option<i32>, retries: Option<u32> },
    /// full-schema merge_insert on `id`: when matched UpdateAll, when not matched InsertAll/DoNothing
    Merge { ids: Vec<i64>, salt: u64, insert: bool, retries: Option<u32> },
    /// partial-schema merge_insert (source = id + one column) -> RewriteColumns path; update only
    MergeCol { ids: Vec<i64>, col: &'static str, salt: u64, retries: Option<u32> },
    Compact { defer_remap: bool },
    CreateIndex { col: &'static str, name: String },
    OptimizeIndices,
    UpdateConfig { key: String, value: String },
    Overwrite { ids: Vec<i64>, salt: u64 },
    /// restore the version the handle is checked out at (the runner opens the handle at `version`)
    Restore { version: u64 },
    /// nullable=false: `id * 2` (NOT NULL); nullable=true: `w * 2` (w is nullable)
    AddColumn { name: String, nullable: bool },
    DropColumn { name: String },
    /// `Operation::DataReplacement` through `Dataset::commit`: the (single, full-schema) data file
    /// of initial fragment `frag` (rows `ids`, physical order) is replaced by a file with new `v`
    ReplaceV { frag: u64, ids: Vec<i64>, salt: u64 },
    /// `alter_columns`: rename column `from` to `to` (metadata only, `Operation::Project`)
    RenameColumn { from: String, to: String },
    /// append written with `execute_uncommitted` and committed with `CommitBuilder::with_detached(true)`:
    /// must never become visible on the main lineage
    DetachedAppend { ids: Vec<i64>, salt: u64 },
}

impl Op {
    pub fn kind(&self) -> &'static str {
        match self {
            Op::Append { .. } => "append",
            Op::Delete { .. } => "delete",
            Op::Update { .. } => "update",
            Op::Merge { insert: true, .. } => "merge_upsert",
            Op::Merge { insert: false, .. } => "merge_update",
            Op::MergeCol { .. } => "merge_col",
            Op::Compact { defer_remap: false } => "compact",
            Op::Compact { defer_remap: true } => "compact_defer",
            Op::CreateIndex { .. } => "create_index",
            Op::OptimizeIndices => "optimize_indices",
            Op::UpdateConfig { .. } => "update_config",
            Op::Overwrite { .. } => "overwrite",
            Op::Restore { .. } => "restore",
            Op::AddColumn { .. } => "add_column",
            Op::DropColumn { .. } => "drop_column",
            Op::ReplaceV { .. } => "data_replacement",
            Op::RenameColumn { .. } => "rename_column",
            Op::DetachedAppend { .. } => "detached_append",
        }
    }
    pub fn retries(&self) -> Option<u32> {
        match self {
            Op::Delete { retries, .. }
            | Op::Update { retries, .. }
            | Op::Merge { retries, .. }
            | Op::MergeCol { retries, .. } => *retries,
            _ => None,
        }
    }
    /// delete / update / merge_insert: the operations C04 quantifies over
    pub fn is_row_mutation(&self) -> bool {
        matches!(
            self,
            Op::Delete { .. } | Op::Update { .. } | Op::Merge { .. } | Op::MergeCol { .. }
        )
    }
    /// must an Ok result have produced exactly one new version?
    pub fn always_commits(&self) -> bool {
        !matches!(self, Op::Compact { .. } | Op::OptimizeIndices | Op::DetachedAppend { .. })
    }
    pub fn describe(&self) -> Value {
        match self {
            Op::Append { ids, salt } => json!({"op":"append","ids":ids,"salt":salt}),
            Op::Delete { pred, retries } => json!({"op":"delete","where":pred.sql(),"retries":retries}),
            Op::Update { pred, add, set_w, retries } => {
                json!({"op":"update","where":pred.sql(),"add":add,"set_w":set_w,"retries":retries})
            }
            Op::Merge { ids, salt, insert, retries } => {
                json!({"op":self.kind(),"ids":ids,"salt":salt,"insert":insert,"retries":retries})
            }
            Op::MergeCol { ids, col, salt, retries } => {
                json!({"op":"merge_col","ids":ids,"col":col,"salt":salt,"retries":retries})
            }
            Op::Compact { defer_remap } => json!({"op":"compact","defer_remap":defer_remap}),
            Op::CreateIndex { col, name } => json!({"op":"create_index","col":col,"name":name}),
            Op::OptimizeIndices => json!({"op":"optimize_indices"}),
            Op::UpdateConfig { key, value } => json!({"op":"update_config","key":key,"value":value}),
            Op::Overwrite { ids, salt } => json!({"op":"overwrite","ids":ids,"salt":salt}),
            Op::Restore { version } => json!({"op":"restore","version":version}),
            Op::AddColumn { name, nullable } => json!({"op":"add_column","name":name,"expr": if *nullable {"w * 2"} else {"id * 2"}}),
            Op::DropColumn { name } => json!({"op":"drop_column","name":name}),
            Op::ReplaceV { frag, ids, salt } => json!({"op":"data_replacement","frag":frag,"ids":ids,"salt":salt}),
            Op::RenameColumn { from, to } => json!({"op":"rename_column","from":from,"to":to}),
            Op::DetachedAppend { ids, salt } => json!({"op":"detached_append","ids":ids,"salt":salt}),
        }
    }
    /// does the op address row `id` through a predicate / key (not counting fresh inserts)?
    pub fn addresses(&self, id: i64) -> bool {
        match self {
            Op::Delete { pred, .. } | Op::Update { pred, .. } => pred.matches(id),
            Op::Merge { ids, .. } | Op::MergeCol { ids, .. } => ids.contains(&id),
            _ => false,
        }
    }
}

// -------------------------------------------------------------------------------------------
// model
// -------------------------------------------------------------------------------------------

#[derive(Clone, Debug, PartialEq)]
pub struct Model {
    pub cols: Vec<String>,
    /// base column (index into BASE_COLS) each current column descends from (field identity
    /// survives a rename); None for computed columns
    pub origin: Vec<Option<usize>>,
    pub rows: BTreeMap<i64, Row>,
    pub config: BTreeMap<String, String>,
    pub indices: BTreeSet<String>,
    /// ids whose current row image no longer lives in its initial fragment's data file
    /// (rewritten by update / full merge_insert); data replacement does not reach them
    pub moved: BTreeSet<i64>,
}

/// What an op did to the model: ids whose row image was removed or replaced.
#[derive(Clone, Debug, Default)]
pub struct Effect {
    pub modified: BTreeSet<i64>,
    pub inserted: BTreeSet<i64>,
}

impl Model {
    pub fn new() -> Self {
        Self {
            cols: BASE_COLS.iter().map(|s| s.to_string()).collect(),
            origin: (0..BASE_COLS.len()).map(Some).collect(),
            rows: BTreeMap::new(),
            config: BTreeMap::new(),
            indices: BTreeSet::new(),
            moved: BTreeSet::new(),
        }
    }
    fn col(&self, name: &str) -> Option<usize> {
        self.cols.iter().position(|c| c == name)
    }
    /// ids selected by `pred` on this state
    pub fn select(&self, pred: &IdPred) -> Vec<i64> {
        let kv = self.base("v");
        let kw = self.base("w");
        self.rows
            .iter()
            .filter(|(id, r)| {
                pred.selects(**id, kv.and_then(|k| r[k].as_i64()), kw.and_then(|k| r[k].as_i64()))
            })
            .map(|(id, _)| *id)
            .collect()
    }
    /// current position of base column `name` (by field identity, whatever it is called now)
    fn base(&self, name: &str) -> Option<usize> {
        let b = BASE_COLS.iter().position(|c| *c == name)?;
        self.origin.iter().position(|o| *o == Some(b))
    }
    /// full base row -> row in the current column layout (missing columns NULL, except the
    /// computed column `x*` which is not part of inserted data and therefore NULL as well)
    fn layout(&self, base: &Row) -> Row {
        self.origin
            .iter()
            .map(|o| match o {
                Some(k) => base[*k].clone(),
                None => Cell::Null,
            })
            .collect()
    }
    /// Apply `op` (evaluated on this state). `states` = model per committed version (for restore).
    pub fn apply(&mut self, op: &Op, states: &BTreeMap<u64, Model>) -> Result<Effect, String> {
        let mut eff = Effect::default();
        match op {
            Op::Append { ids, salt } => {
                for id in ids {
                    let r = self.layout(&gen_row(*id, *salt));
                    if self.rows.insert(*id, r).is_some() {
                        return Err(format!("generator: appended id {id} not fresh"));
                    }
                    eff.inserted.insert(*id);
                }
            }
            Op::Delete { pred, .. } => {
                let hit: Vec<i64> = self.select(pred);
                for id in hit {
                    self.rows.remove(&id);
                    eff.modified.insert(id);
                }
            }
            Op::Update { pred, add, set_w, .. } => {
                let kv = self.base("v");
                let kw = self.base("w");
                let hit: BTreeSet<i64> = self.select(pred).into_iter().collect();
                for (id, r) in self.rows.iter_mut() {
                    if !hit.contains(id) {
                        continue;
                    }
                    if let Some(k) = kv {
                        if let Cell::Int(x) = r[k] {
                            r[k] = Cell::Int(x + *add as i128);
                        }
                    }
                    if let (Some(k), Some(w)) = (kw, set_w) {
                        r[k] = Cell::Int(*w as i128);
                    }
                    self.moved.insert(*id);
                    eff.modified.insert(*id);
                }
            }
            Op::Merge { ids, salt, insert, .. } => {
                for id in ids {
                    let src = gen_row(*id, *salt);
                    if let Some(r) = self.rows.get_mut(id) {
                        // UpdateAll: every source column replaces the target column
                        for (k, o) in self.origin.iter().enumerate() {
                            if let Some(b) = o {
                                r[k] = src[*b].clone();
                            }
                        }
                        self.moved.insert(*id);
                        eff.modified.insert(*id);
                    } else if *insert {
                        let r = self.layout(&src);
                        self.rows.insert(*id, r);
                        eff.inserted.insert(*id);
                    }
                }
            }
            Op::MergeCol { ids, col, salt, .. } => {
                // the column may have been dropped by an earlier transaction: the rewritten
                // column data is then invisible
                let k = self.base(col);
                let b = BASE_COLS.iter().position(|b| b == col).unwrap();
                for id in ids {
                    if let Some(r) = self.rows.get_mut(id) {
                        if let Some(k) = k {
                            r[k] = gen_row(*id, *salt)[b].clone();
                        }
                        eff.modified.insert(*id);
                    }
                }
            }
            Op::Compact { .. } | Op::OptimizeIndices => {}
            Op::CreateIndex { name, .. } => {
                self.indices.insert(name.clone());
            }
            Op::UpdateConfig { key, value } => {
                self.config.insert(key.clone(), value.clone());
            }
            Op::Overwrite { ids, salt } => {
                eff.modified = self.rows.keys().copied().collect();
                self.rows.clear();
                self.cols = BASE_COLS.iter().map(|s| s.to_string()).collect();
                self.origin = (0..BASE_COLS.len()).map(Some).collect();
                self.indices.clear();
                self.moved.clear();
                for id in ids {
                    self.rows.insert(*id, gen_row(*id, *salt));
                    eff.inserted.insert(*id);
                }
            }
            Op::Restore { version } => {
                let old = states
                    .get(version)
                    .ok_or_else(|| format!("generator: restore of unknown version {version}"))?;
                eff.modified = self.rows.keys().copied().collect();
                *self = old.clone();
            }
            Op::AddColumn { name, nullable } => {
                if self.col(name).is_some() {
                    return Err(format!("generator: column {name} exists"));
                }
                let kw = self.base("w");
                self.cols.push(name.clone());
                self.origin.push(None);
                for (id, r) in self.rows.iter_mut() {
                    let c = if *nullable {
                        match kw.map(|k| r[k].clone()) {
                            Some(Cell::Int(w)) => Cell::Int(w * 2),
                            _ => Cell::Null,
                        }
                    } else {
                        Cell::Int(*id as i128 * 2)
                    };
                    r.push(c);
                }
            }
            Op::DropColumn { name } => {
                let k = self.col(name).ok_or("generator: drop of missing column")?;
                self.cols.remove(k);
                self.origin.remove(k);
                for r in self.rows.values_mut() {
                    r.remove(k);
                }
            }
            Op::RenameColumn { from, to } => {
                let k = self.col(from).ok_or("generator: rename of missing column")?;
                self.cols[k] = to.clone();
            }
            Op::DetachedAppend { .. } => {}
            Op::ReplaceV { ids, salt, .. } => {
                // the whole file is replaced: id/w/s keep their initial values, v is new
                for id in ids {
                    if self.moved.contains(id) {
                        continue;
                    }
                    if let Some(r) = self.rows.get_mut(id) {
                        let init = gen_row(*id, 0);
                        let newv = gen_row(*id, *salt)[1].clone();
                        for (k, o) in self.origin.clone().iter().enumerate() {
                            match o {
                                Some(1) => r[k] = newv.clone(),
                                Some(2) => r[k] = init[2].clone(),
                                Some(3) => r[k] = init[3].clone(),
                                _ => {}
                            }
                        }
                        eff.modified.insert(*id);
                    }
                }
            }
        }
        Ok(eff)
    }
}

// -------------------------------------------------------------------------------------------
// execution of one op through the public API
// -------------------------------------------------------------------------------------------

pub fn err_class(e: &lance::Error) -> &'static str {
    use lance::Error as E;
    match e {
        E::RetryableCommitConflict { .. } => "RetryableCommitConflict",
        E::CommitConflict { .. } => "CommitConflict",
        E::TooMuchWriteContention { .. } => "TooMuchWriteContention",
        E::InvalidInput { .. } => "InvalidInput",
        E::InvalidTableLocation { message } if message.starts_with("harness-reject") => "InvalidInput",
        E::NotSupported { .. } => "NotSupported",
        E::SchemaMismatch { .. } => "SchemaMismatch",
        E::Internal { .. } => "Internal",
        E::IO { .. } => "IO",
        E::NotFound { .. } => "NotFound",
        E::DatasetNotFound { .. } => "DatasetNotFound",
        E::CorruptFile { .. } => "CorruptFile",
        E::Arrow { .. } => "Arrow",
        E::Schema { .. } => "Schema",
        E::Index { .. } => "Index",
        E::IndexNotFound { .. } => "IndexNotFound",
        E::Execution { .. } => "Execution",
        E::Wrapped { .. } => "Wrapped",
        E::VersionConflict { .. } => "VersionConflict",
        E::VersionNotFound { .. } => "VersionNotFound",
        _ => "Other",
    }
}

/// bound on Lance's own retry loop (keeps the tail of a run short; expiry is a conflict-class error)
/// wall-clock watchdog of one history; firing = inconclusive
pub const WATCHDOG: Duration = Duration::from_secs(90);

pub const RETRY_TIMEOUT: Duration = Duration::from_secs(12);

pub fn is_conflict_class(c: &str) -> bool {
    matches!(
        c,
        "RetryableCommitConflict" | "CommitConflict" | "TooMuchWriteContention"
    )
}

fn reader(b: RecordBatch) -> RecordBatchIterator<std::vec::IntoIter<Result<RecordBatch, arrow_schema::ArrowError>>> {
    let schema = b.schema();
    RecordBatchIterator::new(vec![Ok(b)].into_iter(), schema)
}

/// Runs `op` on the handle `ds` (already opened at the op's read version) on behalf of `actor`.
/// Ok(Some(v)): the dataset version the API reports after success. Ok(None): success without a
/// version to report (no-op compaction).
pub async fn exec_op(ds: Dataset, actor: &Actor, op: &Op) -> lance::Result<Option<u64>> {
    let before = ds.manifest().version;
    match op {
        Op::Append { ids, salt } => {
            let rows: Vec<Row> = ids.iter().map(|i| gen_row(*i, *salt)).collect();
            let batch = rows_to_batch(&rows, &BASE_COLS);
            let params = WriteParams {
                auto_cleanup: None,
                ..actor.write_params(WriteMode::Append)
            };
            let out = InsertBuilder::new(WriteDestination::Dataset(Arc::new(ds)))
                .with_params(&params)
                .execute(vec![batch])
                .await?;
            Ok(Some(out.manifest().version))
        }
        Op::Overwrite { ids, salt } => {
            let rows: Vec<Row> = ids.iter().map(|i| gen_row(*i, *salt)).collect();
            let batch = rows_to_batch(&rows, &BASE_COLS);
            let params = WriteParams {
                auto_cleanup: None,
                ..actor.write_params(WriteMode::Overwrite)
            };
            let out = InsertBuilder::new(WriteDestination::Dataset(Arc::new(ds)))
                .with_params(&params)
                .execute(vec![batch])
                .await?;
            Ok(Some(out.manifest().version))
        }
        Op::Delete { pred, retries } => {
            let mut b = DeleteBuilder::new(Arc::new(ds), pred.sql());
            if let Some(r) = retries {
                b = b.conflict_retries(*r);
            }
            b = b.retry_timeout(RETRY_TIMEOUT);
            let out = b.execute().await?;
            Ok(Some(out.manifest().version))
        }
        Op::Update { pred, add, set_w, retries } => {
            let mut b = UpdateBuilder::new(Arc::new(ds))
                .update_where(&pred.sql())?
                .set("v", &format!("v + {add}"))?;
            if let Some(w) = set_w {
                b = b.set("w", &w.to_string())?;
            }
            if let Some(r) = retries {
                b = b.conflict_retries(*r);
            }
            b = b.retry_timeout(RETRY_TIMEOUT);
            let out = b.build()?.execute().await?;
            Ok(Some(out.new_dataset.manifest().version))
        }
        Op::Merge { ids, salt, insert, retries } => {
            let rows: Vec<Row> = ids.iter().map(|i| gen_row(*i, *salt)).collect();
            let batch = rows_to_batch(&rows, &BASE_COLS);
            let mut b = MergeInsertBuilder::try_new(Arc::new(ds), vec!["id".to_string()])?;
            b.when_matched(WhenMatched::UpdateAll).when_not_matched(if *insert {
                WhenNotMatched::InsertAll
            } else {
                WhenNotMatched::DoNothing
            });
            if let Some(r) = retries {
                b.conflict_retries(*r);
            }
            b.retry_timeout(RETRY_TIMEOUT);
            let (out, _stats) = b.try_build()?.execute_reader(reader(batch)).await?;
            Ok(Some(out.manifest().version))
        }
        Op::MergeCol { ids, col, salt, retries } => {
            let rows: Vec<Row> = ids.iter().map(|i| gen_row(*i, *salt)).collect();
            let batch = rows_to_batch(&rows, &["id", col]);
            let mut b = MergeInsertBuilder::try_new(Arc::new(ds), vec!["id".to_string()])?;
            b.when_matched(WhenMatched::UpdateAll)
                .when_not_matched(WhenNotMatched::DoNothing);
            if let Some(r) = retries {
                b.conflict_retries(*r);
            }
            b.retry_timeout(RETRY_TIMEOUT);
            let (out, _stats) = b.try_build()?.execute_reader(reader(batch)).await?;
            Ok(Some(out.manifest().version))
        }
        Op::Compact { defer_remap } => {
            let mut ds = ds;
            let opts = CompactionOptions {
                target_rows_per_fragment: 1_000,
                materialize_deletions_threshold: 0.0,
                defer_index_remap: *defer_remap,
                num_threads: Some(1),
                ..Default::default()
            };
            compact_files(&mut ds, opts, None).await?;
            let v = ds.manifest().version;
            Ok(if v == before { None } else { Some(v) })
        }
        Op::CreateIndex { col, name } => {
            let mut ds = ds;
            // index names starting with "bm" ask for a bitmap index, everything else for a btree
            let (ty, params) = if name.starts_with("bm") {
                (
                    IndexType::Bitmap,
                    ScalarIndexParams::for_builtin(lance_index::scalar::BuiltinIndexType::Bitmap),
                )
            } else {
                (IndexType::BTree, ScalarIndexParams::default())
            };
            ds.create_index(&[*col], ty, Some(name.clone()), &params, false).await?;
            Ok(Some(ds.manifest().version))
        }
        Op::OptimizeIndices => {
            let mut ds = ds;
            ds.optimize_indices(&OptimizeOptions::default()).await?;
            let v = ds.manifest().version;
            Ok(if v == before { None } else { Some(v) })
        }
        Op::UpdateConfig { key, value } => {
            let mut ds = ds;
            ds.update_config([(key.as_str(), value.as_str())]).await?;
            Ok(Some(ds.manifest().version))
        }
        Op::Restore { .. } => {
            let mut ds = ds;
            ds.restore().await?;
            Ok(Some(ds.manifest().version))
        }
        Op::AddColumn { name, nullable } => {
            let mut ds = ds;
            let expr = if *nullable { "w * 2" } else { "id * 2" };
            ds.add_columns(
                NewColumnTransform::SqlExpressions(vec![(name.clone(), expr.to_string())]),
                None,
                None,
            )
            .await?;
            Ok(Some(ds.manifest().version))
        }
        Op::DropColumn { name } => {
            let mut ds = ds;
            ds.drop_columns(&[name.as_str()]).await?;
            Ok(Some(ds.manifest().version))
        }
        Op::RenameColumn { from, to } => {
            let mut ds = ds;
            ds.alter_columns(&[lance::dataset::ColumnAlteration::new(from.clone()).rename(to.clone())])
                .await?;
            Ok(Some(ds.manifest().version))
        }
        Op::DetachedAppend { ids, salt } => {
            let rows: Vec<Row> = ids.iter().map(|i| gen_row(*i, *salt)).collect();
            let batch = rows_to_batch(&rows, &BASE_COLS);
            let params = WriteParams {
                auto_cleanup: None,
                ..actor.write_params(WriteMode::Append)
            };
            let dest = Arc::new(ds);
            let tx = InsertBuilder::new(WriteDestination::Dataset(dest.clone()))
                .with_params(&params)
                .execute_uncommitted(vec![batch])
                .await?;
            let out = lance::dataset::CommitBuilder::new(WriteDestination::Dataset(dest))
                .with_detached(true)
                .with_store_params(actor.store_params())
                .with_session(actor.session.clone())
                .execute(tx)
                .await?;
            if !lance_table::format::is_detached_version(out.manifest().version) {
                return Ok(Some(out.manifest().version));
            }
            Ok(None)
        }
        Op::ReplaceV { frag, ids, salt } => {
            use lance::dataset::transaction::{DataReplacementGroup, Operation};
            // our own rejection of a target that is outside the op's precondition
            let invalid = |m: &str| lance::Error::InvalidTableLocation { message: format!("harness-reject: {m}") };
            let f = ds
                .get_fragment(*frag as usize)
                .ok_or_else(|| invalid("data replacement: fragment not present at the read version"))?;
            let meta = f.metadata().clone();
            if meta.files.len() != 1
                || meta.files[0].fields != vec![0, 1, 2, 3]
                || meta.physical_rows != Some(ids.len())
                || ds.schema().fields.len() != 4
            {
                return Err(invalid("data replacement: fragment is not in its initial single-file layout"));
            }
            let rows: Vec<Row> = ids
                .iter()
                .map(|i| {
                    let mut r = gen_row(*i, 0);
                    r[1] = gen_row(*i, *salt)[1].clone();
                    r
                })
                .collect();
            let batch = rows_to_batch(&rows, &BASE_COLS);
            let name = format!("{}.lance", uuid::Uuid::new_v4());
            let path = ds.data_dir().child(name.as_str());
            let writer = ds.object_store().create(&path).await?;
            let version = ds.manifest().data_storage_format.lance_file_version()?;
            let mut fw = lance_file::writer::FileWriter::try_new(
                writer,
                ds.schema().clone(),
                lance_file::writer::FileWriterOptions {
                    format_version: Some(version),
                    ..Default::default()
                },
            )?;
            fw.write_batch(&batch).await?;
            fw.finish().await?;
            let mut new_file = meta.files[0].clone();
            new_file.path = name;
            new_file.file_size_bytes = Default::default();
            let rv = ds.manifest().version;
            let out = Dataset::commit(
                WriteDestination::Dataset(Arc::new(ds)),
                Operation::DataReplacement {
                    replacements: vec![DataReplacementGroup(*frag, new_file)],
                },
                Some(rv),
                Some(actor.store_params()),
                actor.commit_handler.clone(),
                actor.session.clone(),
                false,
            )
            .await?;
            Ok(Some(out.manifest().version))
        }
    }
}

// -------------------------------------------------------------------------------------------
// history
// -------------------------------------------------------------------------------------------

#[derive(Clone, Debug)]
pub enum StratSpec {
    Uniform(u64),
    Pct(u64, usize),
    ActorOrder(Vec<usize>),
    RoundRobin,
}

impl StratSpec {
    pub fn build(&self, actors: usize) -> Strategy {
        match self {
            StratSpec::Uniform(s) => Strategy::Uniform(Rng::new(*s)),
            // actor ids are 1..=actors; priorities are indexed by actor id
            StratSpec::Pct(s, d) => Strategy::pct(Rng::new(*s), actors + 1, *d, 60),
            StratSpec::ActorOrder(o) => Strategy::ActorOrder(o.clone()),
            StratSpec::RoundRobin => Strategy::RoundRobin(0),
        }
    }
    pub fn name(&self) -> String {
        match self {
            StratSpec::Uniform(_) => "uniform".into(),
            StratSpec::Pct(_, d) => format!("pct{d}"),
            StratSpec::ActorOrder(o) => format!("order{o:?}"),
            StratSpec::RoundRobin => "roundrobin".into(),
        }
    }
    pub fn family(&self) -> &'static str {
        match self {
            StratSpec::Uniform(_) => "uniform",
            StratSpec::Pct(..) => "pct",
            StratSpec::ActorOrder(_) => "actor_order",
            StratSpec::RoundRobin => "roundrobin",
        }
    }
}

#[derive(Clone, Debug)]
pub struct HistorySpec {
    pub name: String,
    pub stable_row_ids: bool,
    pub v2_manifest_paths: bool,
    /// initial table: `frags` fragments of `rows_per_frag` rows, ids 0..frags*rows_per_frag
    pub frags: usize,
    pub rows_per_frag: usize,
    /// sequential setup ops by actor 0 (each one version)
    pub pre_ops: Vec<Op>,
    /// concurrent phase: actor i+1 opens the table at version `read_version` and runs `op`
    pub actors: Vec<(u64, Op)>,
    pub strategy: StratSpec,
}

impl HistorySpec {
    pub fn describe(&self) -> Value {
        json!({
            "name": self.name,
            "stable_row_ids": self.stable_row_ids,
            "v2_manifest_paths": self.v2_manifest_paths,
            "frags": self.frags, "rows_per_frag": self.rows_per_frag,
            "pre_ops": self.pre_ops.iter().map(|o| o.describe()).collect::<Vec<_>>(),
            "actors": self.actors.iter().enumerate().map(|(i,(r,o))| json!({"actor":i+1,"read_version":r,"op":o.describe()})).collect::<Vec<_>>(),
            "strategy": self.strategy.name(),
        })
    }
    pub fn initial_ids(&self) -> Vec<i64> {
        (0..(self.frags * self.rows_per_frag) as i64).collect()
    }
}

#[derive(Clone, Debug)]
pub struct OpResult {
    pub actor: usize,
    pub op: Op,
    pub read_version: u64,
    /// Ok(version reported) | Err((class, message))
    pub result: Result<Option<u64>, (String, String)>,
    pub panicked: bool,
}

impl OpResult {
    pub fn describe(&self) -> Value {
        json!({
            "actor": self.actor, "op": self.op.describe(), "read_version": self.read_version,
            "result": match &self.result {
                Ok(v) => json!({"ok": v}),
                Err((c, m)) => json!({"err": c, "msg": m.chars().take(300).collect::<String>()}),
            },
            "panicked": self.panicked,
        })
    }
}

pub struct HistoryOutcome {
    pub spec: HistorySpec,
    pub uri: String,
    pub world: Arc<World>,
    /// latest version before the concurrent phase
    pub base_version: u64,
    /// model after each setup version 1..=base_version
    pub setup_states: BTreeMap<u64, Model>,
    pub results: Vec<OpResult>,
    pub sched: SchedOutcome,
    /// store events of the concurrent phase
    pub events: Vec<Event>,
    /// wall-clock window of the concurrent phase (for attributing secondary panics)
    pub window: (std::time::Instant, std::time::Instant),
}

/// Parse `.../_versions/<name>.manifest` -> version (V1 `N.manifest`, V2 zero padded u64::MAX-N)
pub fn manifest_version_of(path: &str) -> Option<u64> {
    let i = path.find("_versions/")?;
    let file = &path[i + "_versions/".len()..];
    let stem = file.strip_suffix(".manifest")?;
    if stem.is_empty() || !stem.chars().all(|c| c.is_ascii_digit()) {
        return None;
    }
    let x: u64 = stem.parse().ok()?;
    Some(if stem.len() >= 20 { u64::MAX - x } else { x })
}

#[derive(Clone, Debug, Default)]
pub struct LogFacts {
    /// version -> actor that successfully created its manifest (concurrent phase)
    pub creator: BTreeMap<u64, usize>,
    /// version slots for which >= 2 actors issued a create
    pub contested_slots: u64,
    /// failed creates (AlreadyExists / Precondition) = lost slot races
    pub lost_races: u64,
    /// per actor: number of transaction files written (= commit attempts)
    pub txn_files: BTreeMap<usize, u64>,
    /// per actor: number of manifest create calls
    pub manifest_attempts: BTreeMap<usize, u64>,
    /// merged deletion files written by the rebase path (`.bin` written after a first attempt)
    pub actors_started_before_first_commit: usize,
    pub double_create: Vec<u64>,
}

pub fn log_facts(events: &[Event]) -> LogFacts {
    let mut f = LogFacts::default();
    let mut slot_actors: BTreeMap<u64, BTreeSet<usize>> = BTreeMap::new();
    let mut first_commit_t: Option<u64> = None;
    for e in events {
        let dest = e.dest();
        if e.kind.is_mutating() && e.kind != Kind::Delete {
            if let Some(v) = manifest_version_of(dest) {
                *f.manifest_attempts.entry(e.actor).or_insert(0) += 1;
                slot_actors.entry(v).or_default().insert(e.actor);
                if e.ok() {
                    if f.creator.insert(v, e.actor).is_some() {
                        f.double_create.push(v);
                    }
                    if first_commit_t.is_none() {
                        first_commit_t = Some(e.t);
                    }
                } else {
                    f.lost_races += 1;
                }
            }
            if dest.contains("_transactions/") && e.ok() {
                *f.txn_files.entry(e.actor).or_insert(0) += 1;
            }
        }
    }
    f.contested_slots = slot_actors.values().filter(|s| s.len() >= 2).count() as u64;
    let limit = first_commit_t.unwrap_or(u64::MAX);
    let started: BTreeSet<usize> = events
        .iter()
        .filter(|e| e.t < limit && e.actor != 0)
        .map(|e| e.actor)
        .collect();
    f.actors_started_before_first_commit = started.len();
    f
}

struct EndGuard {
    sched: Arc<Sched>,
    actor: usize,
}
impl Drop for EndGuard {
    fn drop(&mut self) {
        self.sched.end(self.actor);
    }
}

static URI_COUNTER: AtomicU64 = AtomicU64::new(0);

/// Create the table, run the setup ops sequentially, then the concurrent phase under the gate
/// scheduler. Err = harness problem (setup failed), never a property verdict.
pub async fn run_history(spec: &HistorySpec, watchdog: Duration) -> Result<HistoryOutcome, String> {
    let world = World::memory();
    let a0 = Actor::new(world.new_actor(0));
    let uri = format!("memory://t{}", URI_COUNTER.fetch_add(1, Ordering::Relaxed));

    // --- initial table ---
    let ids = spec.initial_ids();
    let rows: Vec<Row> = ids.iter().map(|i| gen_row(*i, 0)).collect();
    let batch = rows_to_batch(&rows, &BASE_COLS);
    let params = WriteParams {
        max_rows_per_file: spec.rows_per_frag,
        enable_stable_row_ids: spec.stable_row_ids,
        enable_v2_manifest_paths: spec.v2_manifest_paths,
        auto_cleanup: None,
        ..a0.write_params(WriteMode::Create)
    };
    let ds = a0
        .write(&uri, vec![batch], params)
        .await
        .map_err(|e| format!("setup create: {e}"))?;
    if ds.get_fragments().len() != spec.frags {
        return Err(format!(
            "setup: expected {} fragments, got {}",
            spec.frags,
            ds.get_fragments().len()
        ));
    }
    let mut model = Model::new();
    for (id, r) in ids.iter().zip(rows) {
        model.rows.insert(*id, r);
    }
    let mut states: BTreeMap<u64, Model> = BTreeMap::new();
    states.insert(1, model.clone());
    let mut latest = 1u64;
    for op in &spec.pre_ops {
        let h = match op {
            Op::Restore { version } => a0.open_version(&uri, *version).await,
            _ => a0.open(&uri).await,
        }
        .map_err(|e| format!("setup open: {e}"))?;
        let r = exec_op(h, &a0, op)
            .await
            .map_err(|e| format!("setup op {}: {e}", op.kind()))?;
        model.apply(op, &states).map_err(|e| format!("setup model: {e}"))?;
        if let Some(v) = r {
            if v != latest + 1 {
                return Err(format!("setup: op {} produced version {v}, expected {}", op.kind(), latest + 1));
            }
            latest = v;
            states.insert(v, model.clone());
        }
    }

    // --- concurrent phase ---
    let n = spec.actors.len();
    let mut handles = vec![];
    let mut actors = vec![];
    for (i, (rv, op)) in spec.actors.iter().enumerate() {
        let a = Actor::new(world.new_actor(i + 1));
        let rv = (*rv).min(latest).max(1);
        let h = match op {
            // restore: the handle is checked out at the version to restore
            Op::Restore { version } => a.open_version(&uri, *version).await,
            _ => a.open_version(&uri, rv).await,
        }
        .map_err(|e| format!("open actor {}: {e}", i + 1))?;
        handles.push((rv, h));
        actors.push(a);
    }
    let log_start = world.log_len();
    let t_start = std::time::Instant::now();
    let sched = Sched::new();
    world.set_sched(Some(sched.clone()));
    for i in 0..n {
        sched.begin(i + 1);
    }
    let mut joins = vec![];
    for (i, ((rv, h), a)) in handles.into_iter().zip(actors.into_iter()).enumerate() {
        let op = spec.actors[i].1.clone();
        let s = sched.clone();
        joins.push((
            rv,
            tokio::spawn(async move {
                let _g = EndGuard { sched: s, actor: i + 1 };
                exec_op(h, &a, &op).await
            }),
        ));
    }
    let out = sched.run(spec.strategy.build(n), watchdog).await;
    let mut results = vec![];
    for (i, (rv, j)) in joins.into_iter().enumerate() {
        let op = spec.actors[i].1.clone();
        let (result, panicked) = match j.await {
            Ok(Ok(v)) => (Ok(v), false),
            Ok(Err(e)) => (Err((err_class(&e).to_string(), e.to_string())), false),
            Err(je) => (Err(("Panic".to_string(), je.to_string())), true),
        };
        results.push(OpResult { actor: i + 1, op, read_version: rv, result, panicked });
    }
    world.set_sched(None);
    let events = world.events_since(log_start);
    Ok(HistoryOutcome {
        spec: spec.clone(),
        uri,
        world,
        base_version: latest,
        setup_states: states,
        results,
        sched: out,
        events,
        window: (t_start, std::time::Instant::now()),
    })
}

// -------------------------------------------------------------------------------------------
// checker
// -------------------------------------------------------------------------------------------

#[derive(Clone, Debug)]
pub struct Finding {
    pub signature: String,
    pub what: String,
    pub detail: Value,
}

pub struct Observed {
    pub cols: Vec<String>,
    pub rows: Vec<Row>,
    pub config: BTreeMap<String, String>,
    pub indices: BTreeSet<String>,
}

pub async fn observe_version(actor: &Actor, uri: &str, v: u64) -> Result<Observed, String> {
    use futures::FutureExt;
    match std::panic::AssertUnwindSafe(observe_version_inner(actor, uri, v))
        .catch_unwind()
        .await
    {
        Ok(r) => r,
        Err(p) => Err(format!("PANIC while reading v{v}: {}", panic_msg(&p))),
    }
}

pub fn panic_msg(p: &Box<dyn std::any::Any + Send>) -> String {
    if let Some(s) = p.downcast_ref::<&str>() {
        s.to_string()
    } else if let Some(s) = p.downcast_ref::<String>() {
        s.clone()
    } else {
        "non-string panic payload".into()
    }
}

async fn observe_version_inner(actor: &Actor, uri: &str, v: u64) -> Result<Observed, String> {
    let ds = actor
        .open_version(uri, v)
        .await
        .map_err(|e| format!("open v{v}: {e}"))?;
    let batches: Vec<RecordBatch> = ds
        .scan()
        .try_into_stream()
        .await
        .map_err(|e| format!("scan v{v}: {e}"))?
        .try_collect()
        .await
        .map_err(|e| format!("scan v{v}: {e}"))?;
    let cols: Vec<String> = ds.schema().fields.iter().map(|f| f.name.clone()).collect();
    let rows: Vec<Row> = batches.iter().flat_map(batch_to_rows).collect();
    let config: BTreeMap<String, String> = ds
        .config()
        .iter()
        .filter(|(k, _)| k.starts_with("vk"))
        .map(|(k, v)| (k.clone(), v.clone()))
        .collect();
    let indices: BTreeSet<String> = ds
        .load_indices()
        .await
        .map_err(|e| format!("load_indices v{v}: {e}"))?
        .iter()
        .filter(|i| !i.name.starts_with("__"))
        .map(|i| i.name.clone())
        .collect();
    Ok(Observed { cols, rows, config, indices })
}

/// Kinds of the committed / attempted ops that address `id` (for narrow signatures).
fn kinds_touching(id: i64, ops: &[&Op]) -> String {
    let mut k: Vec<&str> = ops
        .iter()
        .filter(|o| {
            o.addresses(id)
                || matches!(o, Op::Append { ids, .. } | Op::Overwrite { ids, .. } if ids.contains(&id))
                || matches!(o, Op::Restore { .. } | Op::Overwrite { .. })
        })
        .map(|o| o.kind())
        .collect();
    k.sort();
    k.dedup();
    k.join("+")
}

/// Compare an observed version with the model. `ops` = ops of the history (for signatures).
pub fn diff_state(model: &Model, obs: &Observed, ops: &[&Op], at: &str) -> Vec<Finding> {
    let mut out = vec![];
    if obs.cols != model.cols {
        out.push(Finding {
            signature: "schema-differs-from-serial-replay".into(),
            what: format!("{at}: columns {:?}, serial replay gives {:?}", obs.cols, model.cols),
            detail: json!({"observed": obs.cols, "expected": model.cols}),
        });
        return out;
    }
    let kid = obs.cols.iter().position(|c| c == "id").unwrap_or(0);
    let mut seen: BTreeMap<i64, &Row> = BTreeMap::new();
    let mut dups: BTreeMap<i64, Vec<&Row>> = BTreeMap::new();
    for r in &obs.rows {
        let id = r[kid].as_i64().unwrap_or(i64::MIN);
        if let Some(prev) = seen.insert(id, r) {
            dups.entry(id).or_insert_with(|| vec![prev]).push(r);
        }
    }
    for (id, images) in &dups {
        out.push(Finding {
            signature: format!("duplicate-id:{}", kinds_touching(*id, ops)),
            what: format!("{at}: id {id} appears {} times in the scan", images.len()),
            detail: json!({"id": id, "images": images.iter().map(|r| vmon::table::render_row(r)).collect::<Vec<_>>()}),
        });
    }
    let mut missing = vec![];
    let mut extra = vec![];
    let mut wrong = vec![];
    for (id, r) in &model.rows {
        match seen.get(id) {
            None => missing.push(*id),
            Some(o) => {
                if *o != r {
                    wrong.push((*id, vmon::table::render_row(o), vmon::table::render_row(r)));
                }
            }
        }
    }
    for id in seen.keys() {
        if !model.rows.contains_key(id) {
            extra.push(*id);
        }
    }
    if let Some(id) = missing.first() {
        out.push(Finding {
            signature: format!("row-missing:{}", kinds_touching(*id, ops)),
            what: format!("{at}: {} row(s) that serial replay keeps are absent, e.g. id {id}", missing.len()),
            detail: json!({"missing_ids": missing}),
        });
    }
    if let Some(id) = extra.first() {
        out.push(Finding {
            signature: format!("row-resurrected-or-not-removed:{}", kinds_touching(*id, ops)),
            what: format!("{at}: {} row(s) present that serial replay removes, e.g. id {id}", extra.len()),
            detail: json!({"extra_ids": extra}),
        });
    }
    if let Some((id, o, e)) = wrong.first() {
        out.push(Finding {
            signature: format!("stale-or-wrong-value:{}", kinds_touching(*id, ops)),
            what: format!("{at}: {} row(s) differ from serial replay, e.g. id {id}: observed {o}, expected {e}", wrong.len()),
            detail: json!({"rows": wrong.iter().take(10).map(|(i,o,e)| json!({"id":i,"observed":o,"expected":e})).collect::<Vec<_>>()}),
        });
    }
    for (k, v) in &model.config {
        if obs.config.get(k) != Some(v) {
            out.push(Finding {
                signature: "config-update-lost".into(),
                what: format!("{at}: config {k} = {:?}, serial replay gives {v:?}", obs.config.get(k)),
                detail: json!({"key": k, "observed": obs.config.get(k), "expected": v}),
            });
        }
    }
    for k in obs.config.keys() {
        if !model.config.contains_key(k) {
            out.push(Finding {
                signature: "config-key-of-failed-or-absent-txn".into(),
                what: format!("{at}: config key {k} present, serial replay has none"),
                detail: json!({"key": k}),
            });
        }
    }
    if obs.indices != model.indices {
        out.push(Finding {
            signature: "index-list-differs-from-serial-replay".into(),
            what: format!("{at}: indices {:?}, serial replay gives {:?}", obs.indices, model.indices),
            detail: json!({"observed": obs.indices, "expected": model.indices}),
        });
    }
    out
}

pub struct SerialCheck {
    pub findings: Vec<Finding>,
    /// (version, index into results, carries the op's effect) in commit order
    pub commit_order: Vec<(u64, usize, bool)>,
    /// model after each version (setup + concurrent phase)
    pub states: BTreeMap<u64, Model>,
    /// effect of each committed op evaluated immediately before its version (by results index)
    pub effects: BTreeMap<usize, Effect>,
    pub final_version: u64,
    pub rows_compared: u64,
    pub versions_compared: u64,
    pub harness_error: Option<String>,
}

pub type Corrupt<'a> = Option<&'a (dyn Fn(&mut Observed) + Sync)>;

/// Strict serial replay: committed ops in version order, each evaluated on the state immediately
/// before it; every committed version of the concurrent phase must equal the model's state.
/// `corrupt` (selftest only) damages the observation of the final version before it reaches the oracle.
pub async fn check_serial(out: &HistoryOutcome, corrupt: Corrupt<'_>) -> SerialCheck {
    check_serial_opt(out, corrupt, true).await
}

/// `replay = false`: only establish who committed what (commit order, structural findings); the
/// caller judges the contents (phantom-prone class, `c03p`).
pub async fn check_serial_opt(out: &HistoryOutcome, corrupt: Corrupt<'_>, replay: bool) -> SerialCheck {
    let facts = log_facts(&out.events);
    let mut sc = SerialCheck {
        findings: vec![],
        commit_order: vec![],
        states: out.setup_states.clone(),
        effects: BTreeMap::new(),
        final_version: out.base_version,
        rows_compared: 0,
        versions_compared: 0,
        harness_error: None,
    };
    let ops: Vec<&Op> = out.results.iter().map(|r| &r.op).collect();
    let reader = Actor::new(out.world.new_actor(0));
    let latest = match reader.open(&out.uri).await {
        Ok(d) => d.manifest().version,
        Err(e) => {
            sc.findings.push(Finding {
                signature: "latest-version-unreadable-after-race".into(),
                what: format!("cannot open the table after the concurrent phase: {e}"),
                detail: json!({}),
            });
            return sc;
        }
    };
    sc.final_version = latest;
    // who committed what
    let mut by_actor: BTreeMap<usize, Vec<u64>> = BTreeMap::new();
    for (v, a) in &facts.creator {
        by_actor.entry(*a).or_default().push(*v);
    }
    for v in &facts.double_create {
        sc.findings.push(Finding {
            signature: "manifest-created-twice".into(),
            what: format!("two successful creations of the manifest of version {v}"),
            detail: json!({"version": v}),
        });
    }
    // operation name of every version created in the concurrent phase (from its transaction)
    let mut txn_name: BTreeMap<u64, String> = BTreeMap::new();
    for v in facts.creator.keys() {
        use futures::FutureExt;
        let name = std::panic::AssertUnwindSafe(async {
            let ds = reader.open_version(&out.uri, *v).await.ok()?;
            ds.read_transaction().await.ok()?.map(|t| t.operation.name().to_string())
        })
        .catch_unwind()
        .await
        .ok()
        .flatten()
        .unwrap_or_else(|| "?".to_string());
        txn_name.insert(*v, name);
    }
    for (i, r) in out.results.iter().enumerate() {
        let vs = by_actor.get(&r.actor).cloned().unwrap_or_default();
        // compaction reserves fragment ids in a transaction of its own before the rewrite: such
        // versions have no row-level effect (the per-version comparison below still checks that)
        let maintenance = matches!(r.op, Op::Compact { .. });
        let reserve_only = |vs: &[u64]| vs.iter().all(|v| txn_name.get(v).map(|n| n == "ReserveFragments").unwrap_or(false));
        match &r.result {
            Ok(rep) => {
                let extra_ok = maintenance && vs.len() > 1 && reserve_only(&vs[..vs.len() - 1]);
                if vs.len() > 1 && !extra_ok {
                    sc.findings.push(Finding {
                        signature: format!("one-op-many-versions:{}", r.op.kind()),
                        what: format!("actor {} {} created versions {vs:?}", r.actor, r.op.kind()),
                        detail: json!({"versions": vs, "op": r.op.describe(), "txn": txn_name}),
                    });
                }
                if vs.is_empty() && r.op.always_commits() {
                    sc.findings.push(Finding {
                        signature: format!("ok-without-commit:{}", r.op.kind()),
                        what: format!("actor {} {} returned Ok but created no version", r.actor, r.op.kind()),
                        detail: json!({"op": r.op.describe()}),
                    });
                }
                if let (Some(rep), Some(v)) = (rep, vs.last()) {
                    if rep != v {
                        sc.findings.push(Finding {
                            signature: format!("reported-version-differs-from-committed:{}", r.op.kind()),
                            what: format!("actor {} {} reports version {rep} but created {v}", r.actor, r.op.kind()),
                            detail: json!({"reported": rep, "created": vs}),
                        });
                    }
                }
                let last = vs.last().copied();
                for v in vs {
                    // the op's effect belongs to its last version
                    sc.commit_order.push((v, i, Some(v) == last));
                }
            }
            Err((class, msg)) => {
                if !vs.is_empty() {
                    let harmless = maintenance && reserve_only(&vs);
                    if !harmless {
                        sc.findings.push(Finding {
                            signature: format!("failed-op-has-committed-version:{}:{}", r.op.kind(), class),
                            what: format!(
                                "actor {} {} returned Err({class}) but its manifest for version {vs:?} was created",
                                r.actor,
                                r.op.kind()
                            ),
                            detail: json!({"versions": vs, "error": msg, "op": r.op.describe(), "txn": txn_name}),
                        });
                    }
                    // replay so that later diffs stay meaningful (reserve-only versions: no effect)
                    let last = vs.last().copied();
                    for v in vs {
                        sc.commit_order.push((v, i, !harmless && Some(v) == last));
                    }
                }
            }
        }
    }
    sc.commit_order.sort();
    // density
    let expect: Vec<u64> = (out.base_version + 1..=latest).collect();
    sc.commit_order.sort();
    let got: Vec<u64> = sc.commit_order.iter().map(|x| x.0).collect();
    if expect != got {
        sc.harness_error = Some(format!(
            "versions after the race {expect:?} do not match manifests created in the log {got:?}"
        ));
        return sc;
    }
    if !replay {
        return sc;
    }
    // replay + compare every version
    let mut model = out.setup_states[&out.base_version].clone();
    let n_commits = sc.commit_order.len();
    for (k, (v, i, effective)) in sc.commit_order.clone().into_iter().enumerate() {
        let op = &out.results[i].op;
        if effective {
            match model.apply(op, &sc.states) {
                Ok(eff) => {
                    sc.effects.entry(i).or_insert(eff);
                }
                Err(e) => {
                    sc.harness_error = Some(e);
                    return sc;
                }
            }
        }
        sc.states.insert(v, model.clone());
        let mut obs = match observe_version(&reader, &out.uri, v).await {
            Ok(o) => o,
            Err(e) => {
                let reason = if e.contains("non-nullable but contains null") {
                    "non-nullable-column-missing-in-fragment"
                } else if e.contains("split of indexed and non-indexed data") {
                    // deferred-remap rewrite group partly covered by an index that was built
                    // concurrently (the planner could not know about it) vs. anything else
                    let concurrent_index = out.results.iter().any(|r| {
                        matches!(r.result, Ok(Some(_))) && matches!(r.op, Op::CreateIndex { .. } | Op::OptimizeIndices)
                    });
                    if concurrent_index && !out.spec.stable_row_ids {
                        "rewrite-group-partly-covered-by-concurrently-built-index"
                    } else {
                        "frag-reuse-index-group-split"
                    }
                } else if e.contains("PANIC") {
                    "other-panic"
                } else {
                    "other-error"
                };
                sc.findings.push(Finding {
                    signature: format!("committed-version-unreadable:{}:{reason}", op.kind()),
                    what: format!("version {v} (committed by {}) cannot be read: {e}", op.kind()),
                    detail: json!({"version": v, "txn": txn_name.get(&v)}),
                });
                // later versions inherit the damage
                break;
            }
        };
        if k + 1 == n_commits {
            if let Some(c) = corrupt {
                c(&mut obs);
            }
        }
        sc.rows_compared += obs.rows.len() as u64;
        sc.versions_compared += 1;
        let at = format!("v{v} after {} by actor {}", op.kind(), out.results[i].actor);
        let f = diff_state(&model, &obs, &ops, &at);
        if !f.is_empty() {
            sc.findings.extend(f);
            // later versions inherit the damage; report the first divergent version only
            break;
        }
    }
    if n_commits == 0 {
        // nothing committed: the latest version must still equal the base state
        if let Ok(mut obs) = observe_version(&reader, &out.uri, latest).await {
            if let Some(c) = corrupt {
                c(&mut obs);
            }
            sc.rows_compared += obs.rows.len() as u64;
            sc.findings
                .extend(diff_state(&model, &obs, &ops, &format!("v{latest} (no commit)")));
        }
    }
    sc
}

/// Evidence counters shared by the E-CONC checks.
pub fn count_history(report: &Report, out: &HistoryOutcome, facts: &LogFacts) {
    report.count("events", out.events.len() as u64);
    report.count("released_calls", out.sched.released.len() as u64);
    report.count("nondeterministic_steps", out.sched.nondeterministic_steps);
    report.count(&format!("histories_strategy_{}", out.spec.strategy.family()), 1);
    if facts.contested_slots > 0 {
        report.count("histories_with_2plus_writers_at_same_manifest_slot", 1);
    }
    if facts.actors_started_before_first_commit >= 2 {
        report.count("histories_with_2plus_writers_started_before_first_commit", 1);
    }
    report.count("manifest_slot_races_lost", facts.lost_races);
    let mut conflicts = 0;
    let mut rebased = 0;
    let mut reexec = 0;
    for r in &out.results {
        match &r.result {
            Err((c, _)) if is_conflict_class(c) => conflicts += 1,
            Err(_) => {}
            Ok(Some(v)) => {
                if *v > r.read_version + 1 {
                    rebased += 1;
                }
            }
            Ok(None) => {}
        }
        if facts.txn_files.get(&r.actor).copied().unwrap_or(0) > 1 {
            reexec += 1;
        }
    }
    report.count("ops_failed_with_conflict", conflicts);
    report.count("ops_committed_over_concurrent_txn", rebased);
    report.count("ops_with_more_than_one_commit_attempt", reexec);
    report.count("ops_executed", out.results.len() as u64);
    report.count("ops_ok", out.results.iter().filter(|r| r.result.is_ok()).count() as u64);
}

/// A history exercised conflict handling iff some op committed over a concurrent transaction
/// or failed with a conflict.
pub fn exercised_concurrency(out: &HistoryOutcome) -> bool {
    out.results.iter().any(|r| match &r.result {
        Ok(Some(v)) => *v > r.read_version + 1,
        Err((c, _)) => is_conflict_class(c),
        _ => false,
    })
}

pub fn shape_hash(out: &HistoryOutcome) -> u64 {
    let mut s = format!(
        "{}|{}|{}|",
        out.spec.frags, out.spec.stable_row_ids, out.sched.interleaving_hash()
    );
    for r in &out.results {
        s.push_str(&format!(
            "{}@{}->{};",
            r.op.describe(),
            r.read_version,
            match &r.result {
                Ok(v) => format!("ok{v:?}"),
                Err((c, _)) => c.clone(),
            }
        ));
    }
    fnv(s.as_bytes())
}

// -------------------------------------------------------------------------------------------
// parallel driver
// -------------------------------------------------------------------------------------------

/// Runs `case(idx)` for idx in 0..max_cases on `threads` OS threads (one current-thread tokio
/// runtime each) until the report's time budget is used up.
pub fn run_parallel<F, Fut>(report: &Report, threads: usize, max_cases: u64, case: F)
where
    F: Fn(u64) -> Fut + Sync,
    Fut: std::future::Future<Output = ()>,
{
    let next = AtomicU64::new(0);
    let threads = std::env::var("VERIF_THREADS").ok().and_then(|s| s.parse().ok()).unwrap_or(threads);
    std::thread::scope(|s| {
        for _ in 0..threads {
            s.spawn(|| {
                let rt = tokio::runtime::Builder::new_current_thread()
                    .enable_all()
                    .build()
                    .expect("runtime");
                loop {
                    if !report.time_left() {
                        break;
                    }
                    let i = next.fetch_add(1, Ordering::SeqCst);
                    if i >= max_cases {
                        break;
                    }
                    use futures::FutureExt;
                    let r = rt.block_on(std::panic::AssertUnwindSafe(case(i)).catch_unwind());
                    if let Err(p) = r {
                        report.harness_error(&format!("case {i} panicked in the harness thread: {}", panic_msg(&p)));
                    }
                }
            });
        }
    });
}

pub fn permutations(n: usize) -> Vec<Vec<usize>> {
    fn rec(cur: &mut Vec<usize>, used: &mut Vec<bool>, n: usize, out: &mut Vec<Vec<usize>>) {
        if cur.len() == n {
            out.push(cur.clone());
            return;
        }
        for i in 0..n {
            if !used[i] {
                used[i] = true;
                cur.push(i + 1);
                rec(cur, used, n, out);
                cur.pop();
                used[i] = false;
            }
        }
    }
    let mut out = vec![];
    rec(&mut vec![], &mut vec![false; n], n, &mut out);
    out
}

// -------------------------------------------------------------------------------------------
// interleaving bookkeeping (process wide)
// -------------------------------------------------------------------------------------------

static INTERLEAVINGS: std::sync::Mutex<Option<(std::collections::HashSet<u64>, std::collections::HashSet<u64>)>> =
    std::sync::Mutex::new(None);

/// Record the released storage-call sequence of a history (all, and those with a contested slot).
pub fn note_interleaving(out: &HistoryOutcome, facts: &LogFacts) {
    let h = out.sched.interleaving_hash();
    let mut g = INTERLEAVINGS.lock().unwrap();
    let e = g.get_or_insert_with(Default::default);
    e.0.insert(h);
    if facts.contested_slots > 0 {
        e.1.insert(h);
    }
}

pub fn publish_interleavings(report: &Report) {
    let g = INTERLEAVINGS.lock().unwrap();
    if let Some(e) = g.as_ref() {
        report.set("distinct_interleavings", json!(e.0.len()));
        report.set("distinct_interleavings_with_contested_manifest_slot", json!(e.1.len()));
    }
}

// -------------------------------------------------------------------------------------------
// index coverage oracle (C24; also run on the final version of C03 histories)
// -------------------------------------------------------------------------------------------

#[derive(Default, Debug, Clone)]
pub struct IndexCheckStats {
    pub indices: u64,
    pub covered_fragments: u64,
    pub queries: u64,
    pub queries_using_index: u64,
    pub rows_compared: u64,
}

async fn ids_with_frag(ds: &Dataset, filter: &str, use_index: bool) -> Result<BTreeMap<i64, Vec<u32>>, String> {
    let mut sc = ds.scan();
    sc.use_scalar_index(use_index);
    sc.with_row_address();
    sc.project(&["id"]).map_err(|e| e.to_string())?;
    sc.filter(filter).map_err(|e| e.to_string())?;
    let bs: Vec<RecordBatch> = sc
        .try_into_stream()
        .await
        .map_err(|e| format!("scan({filter}, index={use_index}): {e}"))?
        .try_collect()
        .await
        .map_err(|e| format!("scan({filter}, index={use_index}): {e}"))?;
    let mut out: BTreeMap<i64, Vec<u32>> = BTreeMap::new();
    for b in &bs {
        let ids = b
            .column_by_name("id")
            .ok_or("no id column")?
            .as_any()
            .downcast_ref::<Int64Array>()
            .ok_or("id type")?
            .clone();
        let addr = b
            .column_by_name("_rowaddr")
            .ok_or("no _rowaddr column")?
            .as_any()
            .downcast_ref::<arrow_array::UInt64Array>()
            .ok_or("_rowaddr type")?
            .clone();
        for i in 0..b.num_rows() {
            out.entry(ids.value(i)).or_default().push((addr.value(i) >> 32) as u32);
        }
    }
    Ok(out)
}

/// For every user index and a battery of equality / range predicates on its column: the answer
/// with the index must equal the answer without it; a difference is attributed to the fragment
/// (from `_rowaddr`) and classified by whether the index claims that fragment.
/// `corrupt`: selftest hook, damages the indexed answer.
/// `cause(fragments, column)`: the harness' knowledge of which committed ops of the history rewrote
/// `column` in those fragments (narrows the violation signature).
pub type CauseFn<'a> = &'a (dyn Fn(&BTreeSet<u32>, &str) -> String + Sync);

pub async fn check_index_coverage(
    ds: &Dataset,
    cause: CauseFn<'_>,
    corrupt: bool,
) -> Result<(Vec<Finding>, IndexCheckStats), String> {
    use futures::FutureExt;
    let ctx = cause(&BTreeSet::new(), "");
    let ctx = ctx.as_str();
    match std::panic::AssertUnwindSafe(check_index_coverage_inner(ds, cause, corrupt))
        .catch_unwind()
        .await
    {
        Ok(r) => r,
        Err(p) => {
            let msg = panic_msg(&p);
            // the panic hook recorded where it happened
            let loc = THREAD_PANIC_LOCATION
                .with(|l| l.borrow_mut().take())
                .or_else(|| LAST_PANIC_LOCATION.lock().unwrap().clone())
                .unwrap_or_default();
            let reason = if loc.contains("lance-table/src/rowids.rs") {
                "rowid-sequence-mask-to-offsets"
            } else if msg.contains("non-nullable but contains null") {
                "non-nullable-column-missing-in-fragment"
            } else if msg.contains("split of indexed and non-indexed data") {
                "frag-reuse-index-group-split"
            } else {
                "other"
            };
            Ok((
                vec![Finding {
                    signature: if reason == "other" { "query-panics-after-race:other".to_string() } else { format!("panic:{reason}") },
                    what: format!("a filtered scan of the final version panicked at {loc}: {msg}"),
                    detail: json!({"panic": msg, "location": loc, "ops": ctx}),
                }],
                IndexCheckStats::default(),
            ))
        }
    }
}

pub static LAST_PANIC_LOCATION: std::sync::Mutex<Option<String>> = std::sync::Mutex::new(None);

/// (when, where) of every panic of the process; a task that dies with `RecvError` is only the
/// consequence of an earlier panic on Lance's CPU pool, which is found here by time window
pub static PANIC_LOG: std::sync::Mutex<Vec<(std::time::Instant, String)>> = std::sync::Mutex::new(Vec::new());

pub fn panics_between(a: std::time::Instant, b: std::time::Instant) -> Vec<String> {
    PANIC_LOG.lock().unwrap().iter().filter(|(t, _)| *t >= a && *t <= b).map(|x| x.1.clone()).collect()
}

thread_local! {
    pub static THREAD_PANIC_LOCATION: std::cell::RefCell<Option<String>> = const { std::cell::RefCell::new(None) };
}

async fn check_index_coverage_inner(
    ds: &Dataset,
    cause: CauseFn<'_>,
    corrupt: bool,
) -> Result<(Vec<Finding>, IndexCheckStats), String> {
    let mut st = IndexCheckStats::default();
    let mut findings = vec![];
    let indices = ds.load_indices().await.map_err(|e| format!("load_indices: {e}"))?;
    let live_frags: BTreeSet<u32> = ds.get_fragments().iter().map(|f| f.id() as u32).collect();
    // group index segments by name (optimize may produce several deltas)
    let mut by_name: BTreeMap<String, (String, BTreeSet<u32>, bool)> = BTreeMap::new();
    for idx in indices.iter() {
        if idx.name.starts_with("__") || idx.fields.len() != 1 {
            continue;
        }
        let Some(field) = ds.schema().field_by_id(idx.fields[0]) else { continue };
        let e = by_name
            .entry(idx.name.clone())
            .or_insert_with(|| (field.name.clone(), BTreeSet::new(), false));
        match &idx.fragment_bitmap {
            Some(bm) => e.1.extend(bm.iter()),
            None => e.2 = true,
        }
    }
    for (name, (col, bitmap, unknown_bitmap)) in &by_name {
        st.indices += 1;
        st.covered_fragments += bitmap.intersection(&live_frags).count() as u64;
        let mut preds: Vec<String> = vec![];
        let dom: Vec<i64> = match col.as_str() {
            "v" => vec![0, 1, 2, 3, 5, 7, 11, 17, 23, 31, 42, 49, 55, 100],
            "w" => vec![0, 1, 2, 3, 4, 5, 6, 10, 12, 15, 18, 20],
            "id" => vec![0, 1, 2, 3, 5, 7, 8, 9, 10, 11, 19, 20, 39],
            _ => continue,
        };
        for k in &dom {
            preds.push(format!("{col} = {k}"));
        }
        for k in dom.iter().step_by(3) {
            preds.push(format!("{col} < {k}"));
            preds.push(format!("{col} >= {k}"));
        }
        preds.push(format!("{col} >= {} AND {col} <= {}", dom[1], dom[dom.len() / 2]));
        preds.push(format!("{col} > {} AND {col} < {}", dom[2], dom[dom.len() - 2]));
        preds.push(format!("{col} IN ({}, {}, {})", dom[0], dom[3], dom[5]));
        let mut used_index = false;
        if let Ok(plan) = {
            let mut sc = ds.scan();
            sc.filter(&preds[0]).map_err(|e| e.to_string())?;
            sc.explain_plan(false).await
        } {
            used_index = plan.contains("ScalarIndexQuery");
        }
        for p in &preds {
            let mut with = ids_with_frag(ds, p, true).await?;
            let without = ids_with_frag(ds, p, false).await?;
            if corrupt {
                if let Some(k) = with.keys().next().copied() {
                    with.remove(&k);
                } else {
                    with.insert(-7, vec![*live_frags.iter().next().unwrap_or(&0)]);
                }
            }
            st.queries += 1;
            if used_index {
                st.queries_using_index += 1;
            }
            st.rows_compared += without.len() as u64;
            if with == without {
                continue;
            }
            let mut extra = vec![]; // (id, frag) only with index
            let mut missing = vec![];
            for (id, fr) in &with {
                if without.get(id) != Some(fr) {
                    extra.push((*id, fr.clone()));
                }
            }
            for (id, fr) in &without {
                if with.get(id) != Some(fr) {
                    missing.push((*id, fr.clone()));
                }
            }
            let frags: BTreeSet<u32> = extra
                .iter()
                .chain(missing.iter())
                .flat_map(|x| x.1.iter().copied())
                .collect();
            let covered = frags.iter().any(|f| bitmap.contains(f)) || *unknown_bitmap;
            let kind = match (extra.is_empty(), missing.is_empty()) {
                (false, true) => "stale-extra-rows",
                (true, false) => "missing-rows",
                _ => "extra-and-missing-rows",
            };
            findings.push(Finding {
                signature: format!("indexed-answer-differs:{}", cause(&frags, col)),
                what: format!(
                    "{kind} on {} fragment(s): index {name} on {col} (bitmap {bitmap:?}): `{p}` returns {:?} with the index and {:?} without (fragments {frags:?})",
                    if covered { "covered" } else { "uncovered" },
                    with.keys().collect::<Vec<_>>(),
                    without.keys().collect::<Vec<_>>()
                ),
                detail: json!({"index": name, "column": col, "bitmap": bitmap, "predicate": p,
                    "only_with_index": extra, "only_without_index": missing}),
            });
            break; // one witness per index is enough
        }
    }
    Ok((findings, st))
}


/// Root-cause class of an indexed-vs-unindexed difference, from what the harness knows about the
/// history (one class per root cause; a class that is not a known defect must stay distinguishable):
///  * `data-replacement-of-indexed-column` — a DataReplacement of the file holding the column committed
///    while an index on it already existed (known: the replacement never prunes indices);
///  * `optimize-indices-merged-stale-entries` — an optimize_indices committed after an in-place rewrite of
///    the column in that fragment, or (stable row ids) after rows were rewritten into a new fragment;
///  * `deferred-remap-compaction-with-stable-row-ids` — stable row ids and a `defer_index_remap` compaction
///    committed (indexed reads lose rows after the batch-2 fix; reported to the lead);
///  * `stable-row-id-resolution` — stable row ids, the differing fragment was created after the setup
///    and no optimize_indices is involved (index answer resolves to the wrong / stale row);
///  * `index-build-claims-rewritten-fragment` — the column was rewritten in place and no optimize_indices
///    committed afterwards: the index build itself claimed data it did not see (DESIGN §6, fixed);
///  * `index-build-raced-data-replacement` — replacement committed before any index on the column existed;
///  * `unexplained`.
/// When several apply the first of this list wins (a known defect explains the difference; the fixed
/// scenarios with a single writer keep the regression classes observable).
pub fn history_cause(out: &HistoryOutcome) -> impl Fn(&BTreeSet<u32>, &str) -> String + Sync + '_ {
    move |frags: &BTreeSet<u32>, col: &str| {
        let rpf = out.spec.rows_per_frag as i64;
        let ok_ops: Vec<(u64, &Op)> = out
            .spec
            .pre_ops
            .iter()
            .enumerate()
            .map(|(k, o)| (k as u64 + 2, o))
            .chain(out.results.iter().filter_map(|r| match &r.result {
                Ok(Some(v)) => Some((*v, &r.op)),
                _ => None,
            }))
            .collect();
        if frags.is_empty() {
            let mut k: Vec<&str> = ok_ops.iter().map(|o| o.1.kind()).collect();
            k.sort();
            k.dedup();
            return k.join("+");
        }
        let optimize_versions: Vec<u64> = ok_ops.iter().filter(|(_, o)| matches!(o, Op::OptimizeIndices)).map(|x| x.0).collect();
        let mut causes: BTreeSet<&'static str> = BTreeSet::new();
        for f in frags {
            if (*f as usize) >= out.spec.frags {
                let deferred = ok_ops.iter().any(|(_, o)| matches!(o, Op::Compact { defer_remap: true }));
                causes.insert(if out.spec.stable_row_ids {
                    if deferred {
                        "deferred-remap-compaction-with-stable-row-ids"
                    } else if optimize_versions.is_empty() {
                        "stable-row-id-resolution"
                    } else {
                        "optimize-indices-merged-stale-entries"
                    }
                } else {
                    "unexplained"
                });
                continue;
            }
            let lo = *f as i64 * rpf;
            let hi = lo + rpf;
            for (v, o) in &ok_ops {
                match o {
                    Op::ReplaceV { frag, .. } if *frag == *f as u64 && col == "v" => {
                        let index_before = ok_ops
                            .iter()
                            .any(|(vi, oi)| vi < v && matches!(oi, Op::CreateIndex { col: c, .. } if *c == col));
                        // since batch 4 the replacement prunes the fragment; an optimize_indices
                        // afterwards re-claims it together with the old entries
                        let optimized_after = optimize_versions.iter().any(|vi| vi > v);
                        causes.insert(if optimized_after {
                            "optimize-indices-merged-stale-entries"
                        } else if index_before {
                            "data-replacement-of-indexed-column"
                        } else {
                            "index-build-raced-data-replacement"
                        });
                    }
                    Op::MergeCol { ids, col: c, .. } if *c == col && ids.iter().any(|i| *i >= lo && *i < hi) => {
                        let optimized_after = optimize_versions.iter().any(|vi| vi > v);
                        causes.insert(if optimized_after { "optimize-indices-merged-stale-entries" } else { "index-build-claims-rewritten-fragment" });
                    }
                    _ => {}
                }
            }
        }
        for c in [
            "deferred-remap-compaction-with-stable-row-ids",
            "optimize-indices-merged-stale-entries",
            "data-replacement-of-indexed-column",
            "stable-row-id-resolution",
            "index-build-claims-rewritten-fragment",
            "index-build-raced-data-replacement",
        ] {
            if causes.contains(c) {
                return c.to_string();
            }
        }
        "unexplained".to_string()
    }
}

// -------------------------------------------------------------------------------------------
// aftermath: sequential probe operations after the race (amplifies latent structural damage such
// as duplicated row ids / fragment ids that a plain scan does not show)
// -------------------------------------------------------------------------------------------

/// After a clean serial check: a fresh handle updates every row (`v = v + 1000`), then compacts;
/// the table must follow the model through both. Returns findings (signatures prefixed
/// `aftermath-`) and the number of rows compared.
pub async fn aftermath(out: &HistoryOutcome, sc: &SerialCheck) -> (Vec<Finding>, u64) {
    use futures::FutureExt;
    let mut findings = vec![];
    let mut rows = 0u64;
    let Some(mut model) = sc.states.get(&sc.final_version).cloned() else { return (findings, 0) };
    if model.rows.is_empty() || !model.cols.iter().any(|c| c == "v") || !model.cols.iter().any(|c| c == "id") {
        return (findings, 0);
    }
    let a0 = Actor::new(out.world.new_actor(0));
    let ops_hist: Vec<&Op> = out.results.iter().map(|r| &r.op).collect();
    let steps = [
        Op::Update { pred: IdPred::Range(0, i64::MAX), add: 1000, set_w: None, retries: None },
        Op::Compact { defer_remap: false },
    ];
    let mut version = sc.final_version;
    for op in steps.iter() {
        let r = std::panic::AssertUnwindSafe(async {
            let ds = a0.open(&out.uri).await?;
            exec_op(ds, &a0, op).await
        })
        .catch_unwind()
        .await;
        let kinds = {
            let mut k: Vec<&str> = out.results.iter().filter(|r| r.result.is_ok()).map(|r| r.op.kind()).collect();
            k.sort();
            k.dedup();
            k.join("+")
        };
        match r {
            Ok(Ok(v)) => {
                if let Some(v) = v {
                    version = v;
                }
            }
            Ok(Err(e)) => {
                findings.push(Finding {
                    signature: format!("aftermath-{}-fails:{}:{kinds}", op.kind(), err_class(&e)),
                    what: format!("sequential {} after the race failed: {e}", op.kind()),
                    detail: json!({"error": e.to_string()}),
                });
                return (findings, rows);
            }
            Err(p) => {
                let msg = panic_msg(&p);
                let loc = THREAD_PANIC_LOCATION.with(|l| l.borrow_mut().take()).unwrap_or_default();
                let reason = if msg.contains("split of indexed and non-indexed data") {
                    "frag-reuse-index-group-split".to_string()
                } else if loc.contains("lance-table/src/rowids.rs") {
                    "rowid-sequence-mask-to-offsets".to_string()
                } else {
                    format!("other:{kinds}")
                };
                findings.push(Finding {
                    signature: if reason.starts_with("other") { format!("aftermath-{}-panics:{reason}", op.kind()) } else { format!("panic:{reason}") },
                    what: format!("sequential {} after the race panicked at {loc}: {msg}", op.kind()),
                    detail: json!({"panic": msg, "location": loc}),
                });
                return (findings, rows);
            }
        }
        if let Err(e) = model.apply(op, &sc.states) {
            findings.push(Finding { signature: "harness-aftermath-model".into(), what: e, detail: json!({}) });
            return (findings, rows);
        }
        match observe_version(&a0, &out.uri, version).await {
            Ok(obs) => {
                rows += obs.rows.len() as u64;
                let f = diff_state(&model, &obs, &ops_hist, &format!("aftermath {} (v{version})", op.kind()));
                if !f.is_empty() {
                    let deferred = out.results.iter().any(|r| r.result.is_ok() && matches!(r.op, Op::Compact { defer_remap: true }))
                        || out.spec.pre_ops.iter().any(|o| matches!(o, Op::Compact { defer_remap: true }));
                    let class = match (out.spec.stable_row_ids, deferred) {
                        (true, true) => "deferred-remap-compaction-with-stable-row-ids",
                        (true, false) => "stable-row-ids",
                        (false, _) => "row-addresses",
                    };
                    findings.extend(f.into_iter().map(|mut x| {
                        x.what = format!("{} [{}]", x.what, x.signature);
                        x.signature = format!("aftermath-{}-differs-from-model:{class}", op.kind());
                        x
                    }));
                    return (findings, rows);
                }
            }
            Err(e) => {
                let reason = if e.contains("split of indexed and non-indexed data") {
                    "frag-reuse-index-group-split"
                } else if e.contains("non-nullable but contains null") {
                    "non-nullable-column-missing-in-fragment"
                } else {
                    "other"
                };
                findings.push(Finding {
                    signature: format!("aftermath-version-unreadable:{}:{reason}", op.kind()),
                    what: format!("after sequential {}: {e}", op.kind()),
                    detail: json!({}),
                });
                return (findings, rows);
            }
        }
    }
    (findings, rows)
}


/// Stable row ids + BTree on the key: a merge_insert that joins through the index does not match a
/// key whose row was rewritten by an earlier update (sequential root cause, `PROBE --name
/// mi_after_two_updates_seq`); the committed merge_insert then lacks part of its effect. Gives such
/// content differences their own narrow class.
pub fn reclassify_key_index_merge(out: &HistoryOutcome, findings: &mut [Finding]) {
    let key_index = out.spec.pre_ops.iter().any(|o| matches!(o, Op::CreateIndex { col: "id", .. }))
        || out.results.iter().any(|r| r.result.is_ok() && matches!(r.op, Op::CreateIndex { col: "id", .. }));
    if !(key_index && out.spec.stable_row_ids) {
        return;
    }
    for f in findings.iter_mut() {
        let content = f.signature.starts_with("stale-or-wrong-value:")
            || f.signature.starts_with("row-missing:")
            // an upsert that does not match the key inserts a second row with it
            || (f.signature.starts_with("duplicate-id:") && f.what.contains(" after merge_upsert"))
            || f.signature.starts_with("aftermath-update-differs-from-model:");
        let by_merge = f.what.contains(" after merge_u") || f.what.contains(" after merge_col");
        if content && by_merge {
            f.what = format!("{} [{}]", f.what, f.signature);
            f.signature = "merge_insert-through-key-index-misses-rewritten-row:stable-row-ids".into();
        }
    }
}
