//! C24 — index coverage is never claimed for data the index did not see.
//!
//! Generator: an index party (create_index on `v`/`w` from a current or stale handle, or
//! optimize_indices over an existing index with unindexed fragments) races with writers that
//! rewrite the indexed column or move rows: partial-schema merge_insert (RewriteColumns),
//! data replacement (`Operation::DataReplacement` through `Dataset::commit`), compaction (with /
//! without deferred remap), update (RewriteRows), full merge_insert, delete, append. Fixed
//! scenarios (the DESIGN §6 one first) are run in **every** commit order (`ActorOrder`
//! permutations); random mixes additionally under uniform / PCT / round-robin schedules.
//!
//! Oracle: on every version committed in the concurrent phase, for every user index and a battery
//! of equality / range / IN predicates on its column: ids(with index) == ids(use_scalar_index =
//! false); a difference is attributed to its fragment through `_rowaddr` and classified by whether
//! the index's fragment bitmap claims that fragment. The rows themselves are checked against
//! strict serial replay (C03 checker), so the unindexed baseline is itself validated.

use crate::c04::witness;
use crate::engine::*;
use serde_json::json;
use vmon::prng::Rng;
use vmon::report::{Args, Report};
use vmon::table::{Actor, IdAlloc};

const SCENARIOS: [&str; 10] = [
    "stale_create_after_merge_col", // DESIGN §6
    "create_vs_merge_col",
    "optimize_vs_merge_col",
    "create_vs_data_replacement",
    "optimize_vs_data_replacement",
    "create_vs_compaction",
    "optimize_vs_compaction",
    "stale_create_after_data_replacement",
    "random_mix",
    "random_mix",
];

fn sample_ids(rng: &mut Rng, n: i64, k: usize) -> Vec<i64> {
    let mut v: Vec<i64> = rng.sample_indices(n as usize, k.min(n as usize)).into_iter().map(|x| x as i64).collect();
    v.sort();
    v
}

/// ids for a column rewrite that leaves at least one fragment untouched (so that the index keeps
/// some coverage and the query battery stays meaningful)
fn rewrite_ids(rng: &mut Rng, frags: usize, rpf: usize) -> Vec<i64> {
    let spare = rng.usize_below(frags);
    let pool: Vec<i64> = (0..(frags * rpf) as i64).filter(|i| frags == 1 || (*i as usize) / rpf != spare).collect();
    let k = rng.urange(1, 5.min(pool.len()));
    let mut v: Vec<i64> = rng.sample_indices(pool.len(), k).into_iter().map(|i| pool[i]).collect();
    v.sort();
    v
}

fn writer_op(rng: &mut Rng, kind: &str, col: &'static str, frags: usize, rpf: usize, alloc: &mut IdAlloc) -> Op {
    let n = (frags * rpf) as i64;
    match kind {
        "merge_col" => Op::MergeCol { ids: rewrite_ids(rng, frags, rpf), col, salt: rng.next_u64() | 1, retries: None },
        "merge_col_other" => Op::MergeCol { ids: rewrite_ids(rng, frags, rpf), col: if col == "v" { "w" } else { "v" }, salt: rng.next_u64() | 1, retries: None },
        "data_replacement" => {
            let f = rng.usize_below(frags);
            Op::ReplaceV { frag: f as u64, ids: ((f * rpf) as i64..((f + 1) * rpf) as i64).collect(), salt: rng.next_u64() | 1 }
        }
        "compact" => Op::Compact { defer_remap: false },
        "compact_defer" => Op::Compact { defer_remap: true },
        "update" => Op::Update { pred: IdPred::In(sample_ids(rng, n, 3)), add: rng.range(1, 9), set_w: if rng.bool() { Some(rng.range(10, 20) as i32) } else { None }, retries: None },
        "merge_upsert" => {
            let mut ids = sample_ids(rng, n, 2);
            ids.extend(alloc.take(2));
            Op::Merge { ids, salt: rng.next_u64() | 1, insert: true, retries: None }
        }
        "delete" => Op::Delete { pred: IdPred::In(sample_ids(rng, n, 2)), retries: None },
        _ => Op::Append { ids: alloc.take(rng.urange(1, 4)), salt: rng.next_u64() | 1 },
    }
}

pub fn gen_case(seed: u64, idx: u64) -> (HistorySpec, &'static str) {
    let mut rng = Rng::for_case(seed, idx);
    let scenario = SCENARIOS[(idx % SCENARIOS.len() as u64) as usize];
    let frags = rng.urange(2, 4);
    let rpf = *rng.pick(&[6usize, 10]);
    let col: &'static str = if rng.chance(2, 3) { "v" } else { "w" };
    // names starting with "bm" build a bitmap index (engine::exec_op), the others a btree
    let iname: &str = if col == "w" && rng.bool() { "bm_idx" } else { "idx" };
    // stable row ids make compaction keep row ids; without them compaction remaps the index
    let stable = rng.chance(1, 3);
    let mut pre_alloc = IdAlloc::new(8);
    let mut a1 = IdAlloc::new(1);
    let mut a2 = IdAlloc::new(2);
    let mut a3 = IdAlloc::new(3);
    let mut pre_ops = vec![];
    let mut actors: Vec<(u64, Op)> = vec![];
    let create = Op::CreateIndex { col, name: iname.into() };
    // setup for optimize scenarios: an index plus unindexed data
    let optimize_setup = |rng: &mut Rng, pre_ops: &mut Vec<Op>, pre_alloc: &mut IdAlloc| {
        pre_ops.push(Op::CreateIndex { col, name: iname.into() });
        pre_ops.push(Op::Append { ids: pre_alloc.take(rng.urange(2, 5)), salt: 91 });
    };
    let far = u64::MAX; // clamped to the latest version by the runner
    match scenario {
        "stale_create_after_merge_col" => {
            pre_ops.push(Op::MergeCol { ids: rewrite_ids(&mut rng, frags, rpf), col, salt: rng.next_u64() | 1, retries: None });
            actors.push((1, create.clone()));
            if rng.chance(1, 3) {
                actors.push((far, writer_op(&mut rng, "append", col, frags, rpf, &mut a2)));
            }
        }
        "stale_create_after_data_replacement" => {
            let f = rng.usize_below(frags);
            pre_ops.push(Op::ReplaceV { frag: f as u64, ids: ((f * rpf) as i64..((f + 1) * rpf) as i64).collect(), salt: rng.next_u64() | 1 });
            actors.push((1, create.clone()));
        }
        "create_vs_merge_col" => {
            actors.push((far, create.clone()));
            actors.push((far, writer_op(&mut rng, "merge_col", col, frags, rpf, &mut a2)));
        }
        "optimize_vs_merge_col" => {
            optimize_setup(&mut rng, &mut pre_ops, &mut pre_alloc);
            actors.push((far, Op::OptimizeIndices));
            actors.push((far, writer_op(&mut rng, "merge_col", col, frags, rpf, &mut a2)));
        }
        "create_vs_data_replacement" => {
            actors.push((far, create.clone()));
            actors.push((far, writer_op(&mut rng, "data_replacement", col, frags, rpf, &mut a2)));
        }
        "optimize_vs_data_replacement" => {
            optimize_setup(&mut rng, &mut pre_ops, &mut pre_alloc);
            actors.push((far, Op::OptimizeIndices));
            actors.push((far, writer_op(&mut rng, "data_replacement", col, frags, rpf, &mut a2)));
        }
        "create_vs_compaction" => {
            if rng.bool() {
                pre_ops.push(Op::Delete { pred: IdPred::In(sample_ids(&mut rng, (frags * rpf) as i64, 2)), retries: None });
            }
            actors.push((far, create.clone()));
            let k = if rng.bool() { "compact" } else { "compact_defer" };
            actors.push((far, writer_op(&mut rng, k, col, frags, rpf, &mut a2)));
        }
        "optimize_vs_compaction" => {
            optimize_setup(&mut rng, &mut pre_ops, &mut pre_alloc);
            actors.push((far, Op::OptimizeIndices));
            let k = if rng.bool() { "compact" } else { "compact_defer" };
            actors.push((far, writer_op(&mut rng, k, col, frags, rpf, &mut a2)));
        }
        _ => {
            // random mix: index party + 1-2 writers, optional pre-existing index
            let with_existing = rng.bool();
            if with_existing {
                optimize_setup(&mut rng, &mut pre_ops, &mut pre_alloc);
            }
            if rng.bool() {
                let k = *rng.pick(&["merge_col", "update", "delete", "data_replacement"]);
                pre_ops.push(writer_op(&mut rng, k, col, frags, rpf, &mut pre_alloc));
            }
            let base = 1 + pre_ops.len() as u64;
            let idx_op = if with_existing {
                if rng.bool() { Op::OptimizeIndices } else { Op::CreateIndex { col: if col == "v" { "w" } else { "v" }, name: "idx_b".into() } }
            } else {
                create.clone()
            };
            let rv = if rng.chance(1, 2) { rng.range(1, base as i64) as u64 } else { far };
            actors.push((rv, idx_op));
            let kinds = ["merge_col", "merge_col", "merge_col_other", "data_replacement", "compact", "compact_defer", "update", "merge_upsert", "delete", "append"];
            let nw = rng.urange(1, 2);
            for w in 0..nw {
                let k = *rng.pick(&kinds);
                let alloc = if w == 0 { &mut a2 } else { &mut a3 };
                let rv = if rng.chance(1, 3) { rng.range(1, base as i64) as u64 } else { far };
                actors.push((rv, writer_op(&mut rng, k, col, frags, rpf, alloc)));
            }
        }
    }
    let _ = &mut a1;
    // a ReplaceV on a fragment whose file layout a setup op already changed would be rejected by
    // the harness precondition; keep it anyway (counted as rejected)
    let n_act = actors.len();
    let perms = permutations(n_act);
    let round = idx / SCENARIOS.len() as u64;
    let strategy = if scenario != "random_mix" || round % 2 == 0 {
        // every commit order, round robin over the permutations
        match round % (perms.len() as u64 + 2) {
            r if (r as usize) < perms.len() => StratSpec::ActorOrder(perms[r as usize].clone()),
            r if r as usize == perms.len() => StratSpec::Uniform(rng.next_u64()),
            _ => StratSpec::RoundRobin,
        }
    } else {
        match rng.below(3) {
            0 => StratSpec::Uniform(rng.next_u64()),
            1 => StratSpec::Pct(rng.next_u64(), rng.urange(1, 3)),
            _ => StratSpec::RoundRobin,
        }
    };
    (
        HistorySpec {
            name: format!("c24-{seed}-{idx}-{scenario}"),
            stable_row_ids: stable,
            v2_manifest_paths: false,
            frags,
            rows_per_frag: rpf,
            pre_ops,
            actors,
            strategy,
        },
        scenario,
    )
}

async fn one_case(report: &Report, seed: u64, idx: u64, corrupt: bool) -> Option<bool> {
    let (spec, scenario) = gen_case(seed, idx);
    let out = match run_history(&spec, WATCHDOG).await {
        Ok(o) => o,
        Err(e) => {
            report.count("setup_failures", 1);
            if std::env::var("E_CONC_DEBUG").is_ok() {
                eprintln!("setup failure case {idx} ({scenario}): {e}");
            }
            if report.counter("setup_failures") > 50 {
                report.harness_error(&format!("setup failed repeatedly: {e}"));
            }
            return None;
        }
    };
    if out.sched.watchdog_fired {
        report.inconclusive(&format!("watchdog fired in case {idx}"));
        report.count("watchdog_fired", 1);
        report.case(None);
        return None;
    }
    let facts = log_facts(&out.events);
    let sc = check_serial(&out, None).await;
    if let Some(e) = &sc.harness_error {
        report.harness_error(&format!("case {idx}: {e}"));
        return None;
    }
    count_history(report, &out, &facts);
    note_interleaving(&out, &facts);
    report.count(&format!("scenario_{scenario}"), 1);
    report.count("rows_compared", sc.rows_compared);
    for r in &out.results {
        report.count(&format!("op_{}_{}", r.op.kind(), if r.result.is_ok() { "ok" } else { "err" }), 1);
        if let Err((c, _)) = &r.result {
            if c == "InvalidInput" || c == "NotSupported" {
                report.rejected();
            } else if !is_conflict_class(c) {
                report.count(&format!("diagnostic_error_class_{c}_{}", r.op.kind()), 1);
            }
        }
    }
    let mut findings = sc.findings.clone();
    let mut used_index = 0u64;
    let mut covered = 0u64;
    let mut indices_seen = 0u64;
    if findings.is_empty() {
        let reader = Actor::new(out.world.new_actor(0));
        let cause = history_cause(&out);
        let mut versions: Vec<u64> = sc.commit_order.iter().map(|x| x.0).collect();
        if versions.is_empty() {
            versions.push(sc.final_version);
        }
        for v in versions {
            let ds = match reader.open_version(&out.uri, v).await {
                Ok(d) => d,
                Err(e) => {
                    findings.push(Finding { signature: "version-unreadable-after-index-race".into(), what: format!("v{v}: {e}"), detail: json!({}) });
                    break;
                }
            };
            let is_last = v == sc.final_version;
            match check_index_coverage(&ds, &cause, corrupt && is_last).await {
                Ok((f, st)) => {
                    report.count("index_queries_compared", st.queries);
                    report.count("index_queries_using_index", st.queries_using_index);
                    report.count("index_rows_compared", st.rows_compared);
                    report.count("versions_index_checked", 1);
                    if is_last {
                        used_index = st.queries_using_index;
                        covered = st.covered_fragments;
                        indices_seen = st.indices;
                    }
                    if !f.is_empty() {
                        findings.extend(f.into_iter().map(|mut x| {
                            x.what = format!("v{v}: {}", x.what);
                            x
                        }));
                        break;
                    }
                }
                Err(e) => {
                    findings.push(Finding {
                        signature: "query-fails-after-index-race".into(),
                        what: format!("v{v}: query failed: {e}"),
                        detail: json!({}),
                    });
                    break;
                }
            }
        }
    }
    if corrupt {
        // a history that ended without any index cannot have its indexed answer damaged
        return if indices_seen > 0 { Some(!findings.is_empty()) } else { None };
    }
    for f in &findings {
        report.violation(&f.signature, &f.what, witness(&out, seed, idx, json!({"scenario": scenario}), f));
    }
    // non-trivial: an index with live coverage exists at the end, queries used it, and a
    // column-rewriting / row-moving / layout-changing op of the history committed
    let writer_committed = out.spec.pre_ops.iter().any(|o| !matches!(o, Op::CreateIndex { .. } | Op::Append { .. }))
        || out.results.iter().any(|r| r.result.is_ok() && !matches!(r.op, Op::CreateIndex { .. } | Op::OptimizeIndices));
    let index_committed = out.results.iter().any(|r| matches!(r.result, Ok(Some(_))) && matches!(r.op, Op::CreateIndex { .. } | Op::OptimizeIndices));
    let nontrivial = indices_seen > 0 && covered > 0 && used_index > 0 && writer_committed && index_committed;
    if indices_seen > 0 && covered == 0 {
        report.count("histories_index_without_live_coverage", 1);
    }
    if index_committed && writer_committed {
        report.count("histories_index_and_writer_both_committed", 1);
    }
    report.case(if nontrivial { Some(shape_hash(&out)) } else { None });
    if nontrivial && report.want_sample() && idx % 11 < 2 {
        report.sample(json!({
            "case": idx, "scenario": scenario,
            "history": out.spec.describe(),
            "results": out.results.iter().map(|r| r.describe()).collect::<Vec<_>>(),
            "commit_order": sc.commit_order.iter().map(|(v,i,_)| json!({"version": v, "actor": out.results[*i].actor, "op": out.results[*i].op.kind()})).collect::<Vec<_>>(),
            "covered_fragments_at_end": covered,
        }));
    }
    None
}

pub fn run(args: &Args) -> i32 {
    let seed = args.seed;
    if args.extra.contains_key("selftest") {
        let rt = tokio::runtime::Builder::new_current_thread().enable_all().build().unwrap();
        let report = Report::new(args, "exploration", "selftest", (60, 60));
        let (mut fired, mut tried) = (0, 0);
        for idx in 0..20u64 {
            if let Some(f) = rt.block_on(one_case(&report, seed, idx, true)) {
                tried += 1;
                if f {
                    fired += 1;
                }
            }
        }
        println!("SELFTEST C24 damaged-indexed-answer detected {fired}/{tried}");
        return if tried > 0 && fired == tried { 0 } else { 2 };
    }
    let report = Report::new(
        args,
        "exploration",
        "index party (create_index / optimize_indices, current or stale handle) x writers (partial-schema merge_insert, data replacement, compaction, update, merge_insert, delete, append): fixed scenarios in every commit order + random mixes under uniform/PCT/round-robin schedules; non-trivial iff index build and a writer both committed, the final index covers a live fragment and the query battery used it; distinct = hash(ops, read versions, results, released storage-call sequence)",
        (75, 900),
    )
    .with_min_nontrivial(30);
    // quick: fixed case set per seed; the budget is only a safety cap
    let max_cases = args.tier.pick(450, 100_000);
    if let Some(c) = args.extra.get("case").and_then(|c| c.parse::<u64>().ok()) {
        let rt = tokio::runtime::Builder::new_current_thread().enable_all().build().unwrap();
        rt.block_on(one_case(&report, seed, c, false));
        return report.finish();
    }
    if let Some(path) = &args.replay {
        let txt = std::fs::read_to_string(path).unwrap_or_default();
        let v: serde_json::Value = serde_json::from_str(&txt).unwrap_or_default();
        let seed = v["witness"]["seed"].as_u64().unwrap_or(args.seed);
        let idx = v["witness"]["case_index"].as_u64().unwrap_or(0);
        let rt = tokio::runtime::Builder::new_current_thread().enable_all().build().unwrap();
        for _ in 0..5 {
            rt.block_on(one_case(&report, seed, idx, false));
        }
        return report.finish();
    }
    let r = &report;
    run_parallel(r, 16, max_cases, |i| async move {
        one_case(r, seed, i, false).await;
    });
    publish_interleavings(&report);
    report.finish()
}
