//! C21 — index result combination is sound; row-set masks are mathematical sets.
//!
//! Oracle: interval-set model (`ivset.rs`) for `RowIdTreeMap` and (allow, block) semantics for
//! `RowIdMask`; `ScalarIndexExpr::evaluate` is driven with a mock loader whose leaves return chosen
//! `SearchResult`s; the result must keep its guarantee w.r.t. the true set of the expression.
use crate::c21_eval::*;
use crate::c21_map::*;
use crate::common::*;
use crate::ivset::IvSet;
use lance_core::utils::mask::RowIdTreeMap;
use serde_json::json;
use std::collections::BTreeSet;
use std::sync::atomic::{AtomicBool, AtomicU64, Ordering};
use std::sync::{Arc, Mutex};
use vmon::prng::Rng;
use vmon::report::{Args, Report, Tier};

static HEAVY_LOCK: Mutex<()> = Mutex::new(());
/// selftest: flip one bit of the observed evaluate() result before the oracle sees it
static CORRUPT_EVAL: AtomicBool = AtomicBool::new(false);

fn fail_witness(seed: u64, part: &str, detail: &str, extra: serde_json::Value) -> serde_json::Value {
    json!({"seed": seed as i64, "part": part, "detail": detail, "input": extra})
}

/// IvSet (the model) against plain bit arithmetic on a 6-point universe: a disagreement is a
/// harness error, never a violation.
fn model_selfcheck() -> Result<(), String> {
    let pts: [u64; 6] = [0, 1, 2, u32::MAX as u64, (1u64 << 32), u64::MAX];
    let mk = |bits: u32| IvSet::from_points(pts.iter().enumerate().filter(|(i, _)| bits & (1 << i) != 0).map(|(_, p)| *p));
    let bits_of = |s: &IvSet| {
        let mut r = 0u32;
        for (i, p) in pts.iter().enumerate() {
            if s.contains(*p) {
                r |= 1 << i;
            }
        }
        r
    };
    for a in 0..64u32 {
        let sa = mk(a);
        if bits_of(&sa) != a || sa.card() != a.count_ones() as u128 {
            return Err(format!("IvSet construction wrong for {a:b}"));
        }
        if bits_of(&sa.complement()) != !a & 63 || sa.complement().complement() != sa {
            return Err(format!("IvSet complement wrong for {a:b}"));
        }
        for b in 0..64u32 {
            let sb = mk(b);
            if sa.union(&sb) != mk(a | b) || sa.intersect(&sb) != mk(a & b) || sa.minus(&sb) != mk(a & !b) {
                return Err(format!("IvSet binary op wrong for {a:b},{b:b}"));
            }
        }
    }
    Ok(())
}

// ------------------------------------------------------------------------------------------

fn exhaustive_maps(report: &Report, sink: &Sink, small: &Small, heavy_cap: usize) {
    let vars = small.variants();
    let mut heavy_done = 0usize;
    let mut ops = 0u64;
    for (xb, xf) in &vars {
        let x = small.pair(*xb, *xf);
        if let Err((c, d)) = x.check("small-set").and_then(|_| check_serde(&x)) {
            sink.violation_lazy(&format!("treemap:{c}"), &d, || {
                fail_witness(report.seed, "exhaustive-maps", &d, json!({"set": x.log, "universe": format!("{small:?}")}))
            });
        }
        for (yb, yf) in &vars {
            let y = small.pair(*yb, *yf);
            let heavy = sub_is_heavy(&x, &y) && heavy_done < heavy_cap;
            let _g = if heavy {
                heavy_done += 1;
                Some(HEAVY_LOCK.lock().unwrap())
            } else {
                None
            };
            match guarded(|| check_binary(&x, &y, heavy)) {
                Ok((n, fails)) => {
                    ops += n;
                    for (c, d) in fails {
                        sink.violation_lazy(&format!("treemap:{c}"), &d, || {
                            fail_witness(report.seed, "exhaustive-maps", &d, json!({"a": x.log, "b": y.log, "universe": format!("{small:?}")}))
                        });
                    }
                }
                Err(p) => sink.violation_lazy("treemap:panic-in-set-operation", &p, || {
                    fail_witness(report.seed, "exhaustive-maps", &p, json!({"a": x.log, "b": y.log}))
                }),
            }
            let nt = *xb != 0 && *yb != 0;
            report.case(nt.then(|| hash_of(&("maps", xb, xf, yb, yf))));
        }
    }
    report.count("small_universe_map_ops_checked", ops);
    report.count("heavy_full_fragment_ops", heavy_done as u64);
}

fn exhaustive_masks(report: &Report, sink: &Sink, small: &Small) {
    let vars = small.variants();
    // list options: None + every variant
    let lists: Vec<Option<Pair>> = std::iter::once(None)
        .chain(vars.iter().map(|(b, f)| Some(small.pair(*b, *f))))
        .collect();
    let masks: Vec<(usize, usize, MaskPair)> = (0..lists.len())
        .flat_map(|a| (0..lists.len()).map(move |b| (a, b)))
        .map(|(a, b)| (a, b, MaskPair::new(lists[a].as_ref(), lists[b].as_ref())))
        .collect();
    let extras: Vec<Pair> = vars.iter().map(|(b, f)| small.pair(*b, *f)).collect();
    let ops = AtomicU64::new(0);
    let pools = Pools { frags: vec![small.fa, small.fb] };
    fan_out(n_threads(), 0, masks.len() as u64, &|| true, &|i| {
        let (ai, bi, a) = &masks[i as usize];
        let mut rng = Rng::for_case(report.seed, 0x21_0000 + i);
        let wit = |d: &str, other: Option<&(usize, usize, MaskPair)>, extra: Option<&Pair>| {
            json!({"seed": report.seed as i64, "part": "exhaustive-masks", "detail": d,
                "universe": format!("{small:?}"),
                "a": {"allow": lists[*ai].as_ref().map(|p| p.log.clone()), "block": lists[*bi].as_ref().map(|p| p.log.clone())},
                "b": other.map(|(x, y, _)| json!({"allow": lists[*x].as_ref().map(|p| p.log.clone()), "block": lists[*y].as_ref().map(|p| p.log.clone())})),
                "extra_set": extra.map(|p| p.log.clone())})
        };
        match guarded(|| check_mask_unary(a, &mut rng, &pools)) {
            Ok(Ok(())) => {}
            Ok(Err((c, d))) => sink.violation_lazy(&format!("mask:{c}"), &d, || wit(&d, None, None)),
            Err(p) => sink.violation_lazy("mask:panic-in-unary-operation", &p, || wit(&p, None, None)),
        }
        let mut sigs = vec![];
        let mut n = 0u64;
        for (j, other) in masks.iter().enumerate() {
            let extra = &extras[(i as usize + j) % extras.len()];
            match guarded(|| check_mask_ops(a, &other.2, extra, false)) {
                Ok((k, fails)) => {
                    n += k;
                    for (c, d) in fails {
                        let pre = if c.starts_with("mask-") { "mask:" } else { "treemap:" };
                        sink.violation_lazy(&format!("{pre}{c}"), &d, || wit(&d, Some(other), Some(extra)));
                    }
                }
                Err(p) => sink.violation_lazy("mask:panic-in-mask-operation", &p, || wit(&p, Some(other), Some(extra))),
            }
            let nt = (*ai != 0 || *bi != 0) && (other.0 != 0 || other.1 != 0);
            if nt {
                sigs.push(hash_of(&("masks", ai, bi, other.0, other.1)));
            }
        }
        report.cases(masks.len() as u64);
        for s in sigs {
            report.nontrivial(s);
        }
        ops.fetch_add(n, Ordering::Relaxed);
    });
    report.count("small_universe_mask_ops_checked", ops.load(Ordering::Relaxed));
    report.count("small_universe_masks", masks.len() as u64);
}

/// X candidates (true match sets) consistent with a leaf's kind and returned set R over 4 rows.
fn consistent_truths(kind: u8, r: u64) -> Vec<u64> {
    match kind {
        EXACT => vec![r],
        AT_MOST => (0..16u64).filter(|x| x & !r == 0).collect(),
        _ => (0..16u64).filter(|x| r & !x == 0).collect(),
    }
}

fn exhaustive_evaluate(report: &Report, sink: &Sink, small: &Small, shapes: &[Shape], stop: &(dyn Fn() -> bool + Sync)) -> bool {
    // leaf row sets for both representations
    let sets: Vec<Vec<RowIdTreeMap>> = [false, true]
        .iter()
        .map(|fm| (0..16u8).map(|b| small.pair(b, *fm).real).collect())
        .collect();
    // work units: (shape, kinds, representation)
    let mut units = vec![];
    for (si, s) in shapes.iter().enumerate() {
        let n = s.leaves();
        for kinds in 0..3usize.pow(n as u32) {
            for fm in 0..2usize {
                // `RowIdMask | RowIdMask` subtracts lists from each other; "full fragment minus
                // partial" materialises a 2^32-row bitmap (10 s, 512 MB). Full-fragment markers are
                // therefore only enumerated for `marker_safe` shapes (OR over NOT-free subtrees, no nested NOT).
                if fm == 1 && !s.marker_safe() {
                    continue;
                }
                units.push((si, kinds, fm));
            }
        }
    }
    let evals = AtomicU64::new(0);
    let checks = AtomicU64::new(0);
    let broken = AtomicU64::new(0);
    let sampled = AtomicBool::new(false);
    let done = fan_out(n_threads(), 0, units.len() as u64, &|| !stop(), &|ui| {
        let (si, kinds_code, fm) = units[ui as usize];
        let shape = &shapes[si];
        let n = shape.leaves();
        let deep = shape.depth() > 3;
        let kinds: Vec<u8> = (0..n).map(|l| ((kinds_code / 3usize.pow(l as u32)) % 3) as u8).collect();
        let expr = shape.to_expr();
        let index = Arc::new(MockIndex::default());
        let loader = MockLoader { index: index.clone() };
        let mut sigs = Vec::with_capacity(16usize.pow(n as u32));
        let (mut ev, mut ck, mut br) = (0u64, 0u64, 0u64);
        let mut local: Vec<((u8, &'static str, bool), u64, String, String, serde_json::Value)> = vec![];
        for rcode in 0..16usize.pow(n as u32) {
            let rs: Vec<u64> = (0..n).map(|l| ((rcode >> (4 * l)) & 15) as u64).collect();
            {
                let mut g = index.leaves.write().unwrap();
                g.clear();
                for l in 0..n {
                    g.push((kinds[l], sets[fm][rs[l] as usize].clone()));
                }
            }
            let res = guarded(|| run_evaluate(&expr, &loader));
            ev += 1;
            let (kind, mask) = match res {
                Ok(Ok(x)) => x,
                Ok(Err(e)) => {
                    sink.violation_lazy("evaluate:error-on-accepted-expression", &e, || {
                        json!({"seed": report.seed as i64, "expr": shape.text(), "kinds": kinds, "returned_sets": rs})
                    });
                    continue;
                }
                Err(p) => {
                    sink.violation_lazy("evaluate:panic", &p, || {
                        json!({"seed": report.seed as i64, "expr": shape.text(), "kinds": kinds, "returned_sets": rs})
                    });
                    continue;
                }
            };
            let mut r = small.bits_of(|a| obs_selected(&mask, a));
            if CORRUPT_EVAL.load(Ordering::Relaxed) && rcode == 5 {
                r ^= 1;
            }
            // all true sets consistent with what the leaves promised
            let cands: Vec<Vec<u64>> = (0..n).map(|l| consistent_truths(kinds[l], rs[l])).collect();
            let mut idx = vec![0usize; n];
            let mut xs = vec![0u64; n];
            let mut bad: Option<(&'static str, Vec<u64>, u64)> = None;
            'prod: loop {
                for l in 0..n {
                    xs[l] = cands[l][idx[l]];
                }
                let t = shape.truth_bits(&xs, &mut 0, 0xF);
                ck += 1;
                if let Some(c) = guarantee_broken(kind, r, t) {
                    bad = Some((c, xs.clone(), t));
                    break 'prod;
                }
                let mut l = 0;
                loop {
                    if l == n {
                        break 'prod;
                    }
                    idx[l] += 1;
                    if idx[l] < cands[l].len() {
                        break;
                    }
                    idx[l] = 0;
                    l += 1;
                }
            }
            if let Some((class, xs, t)) = bad {
                br += 1;
                let two = negates_two_list_mask(&expr, &loader);
                let key = (kind, class, two);
                if let Some(e) = local.iter_mut().find(|e| e.0 == key) {
                    e.1 += 1;
                } else {
                    let sig = format!(
                        "evaluate:{}-guarantee-broken:{}:{}",
                        KIND_NAMES[kind as usize],
                        class,
                        if two { "tree-negates-mask-with-allow-and-block-list" } else { "no-two-list-negation" }
                    );
                    let what = format!(
                        "{} with leaves {:?} claims {} but selects rows {:04b} while the true matches are {:04b}",
                        shape.text(),
                        kinds.iter().map(|k| KIND_NAMES[*k as usize]).collect::<Vec<_>>(),
                        KIND_NAMES[kind as usize],
                        r,
                        t
                    );
                    let wit = json!({"seed": report.seed as i64, "part": "exhaustive-evaluate", "expr": shape.text(),
                        "universe_addresses": small.u, "full_fragment_markers": fm == 1,
                        "leaf_kinds": kinds.iter().map(|k| KIND_NAMES[*k as usize]).collect::<Vec<_>>(),
                        "leaf_returned_sets_bits": rs, "leaf_true_sets_bits": xs,
                        "result_kind": KIND_NAMES[kind as usize], "result_selected_bits": r, "true_bits": t,
                        "result_mask": format!("{mask:?}")});
                    local.push((key, 1, sig, what, wit));
                }
            }
            if shape.has_op() && r != 0 && r != 0xF {
                // depth<=3 shapes: every (shape, kinds, returned sets) is its own class; the many
                // depth-4 cases are classed by (shape, kinds, outcome) to keep the set small
                if deep {
                    sigs.push(hash_of(&("eval4", si, kinds_code, fm, r, kind)));
                } else {
                    sigs.push(hash_of(&("eval", si, kinds_code, fm, rcode)));
                }
            }
            if !sampled.load(Ordering::Relaxed) && shape.leaves() == 3 && rcode == 0x3A5 && !sampled.swap(true, Ordering::Relaxed) {
                report.sample(json!({"part": "exhaustive-evaluate", "expr": shape.text(),
                    "leaf_kinds": kinds.iter().map(|k| KIND_NAMES[*k as usize]).collect::<Vec<_>>(),
                    "leaf_returned_sets_bits": rs, "result_kind": KIND_NAMES[kind as usize], "result_selected_bits": r}));
            }
        }
        report.cases(ev);
        for s in sigs {
            report.nontrivial(s);
        }
        for (_, n, sig, what, wit) in local {
            sink.violation_n(&sig, &what, wit, n);
        }
        evals.fetch_add(ev, Ordering::Relaxed);
        checks.fetch_add(ck, Ordering::Relaxed);
        broken.fetch_add(br, Ordering::Relaxed);
    });
    report.count("evaluate_calls_small_universe", evals.load(Ordering::Relaxed));
    report.count("evaluate_truth_assignments_checked", checks.load(Ordering::Relaxed));
    report.count("evaluate_cases_with_broken_guarantee", broken.load(Ordering::Relaxed));
    let complete = done == units.len() as u64;
    if complete {
        report.count("evaluate_tree_shapes_completed", shapes.len() as u64);
        report.count("evaluate_tree_shapes_completed_with_full_fragment_markers", shapes.iter().filter(|s| s.marker_safe()).count() as u64);
    }
    complete
}

// ------------------------------------------------------------------------------------------
// random large cases

fn random_map_case(report: &Report, sink: &Sink, i: u64) {
    let mut rng = Rng::for_case(report.seed, i);
    let heavy = false; // operations materialising a 2^32-row bitmap run in `heavy_ops` only
    let pools = Pools::gen(&mut rng);
    let mut logs: Vec<Vec<String>> = vec![];
    let mut fails: Vec<Fail> = vec![];
    let r = guarded(|| -> (Option<u64>, u64) {
        let mut ps = vec![];
        for _ in 0..3 {
            let p = gen_pair(&pools, &mut rng, 30, heavy, &mut fails);
            logs.push(p.log.clone());
            ps.push(p);
        }
        let (a, b, c) = (&ps[0], &ps[1], &ps[2]);
        let (mut n, f) = check_binary(a, b, heavy);
        fails.extend(f);
        for x in [a, c] {
            if let Err(e) = check_serde(x) {
                fails.push(e);
            }
        }
        let pick = |rng: &mut Rng, x: &Pair, y: &Pair| match rng.below(3) {
            0 => None,
            1 => Some(x.clone()),
            _ => Some(y.clone()),
        };
        let m1 = MaskPair::new(pick(&mut rng, a, c).as_ref(), pick(&mut rng, b, c).as_ref());
        let m2 = MaskPair::new(pick(&mut rng, b, a).as_ref(), pick(&mut rng, c, a).as_ref());
        if let Err(e) = check_mask_unary(&m1, &mut rng, &pools) {
            fails.push(e);
        }
        for (x, y, e) in [(&m1, &m2, c), (&m2, &m1, b)] {
            let (k, f) = check_mask_ops(x, y, e, heavy);
            n += k;
            fails.extend(f);
        }
        let nt = !a.model.is_empty() && !b.model.is_empty();
        (nt.then(|| hash_of(&(&a.model, &b.model, &c.model))), n)
    });
    match r {
        Ok((sig, n)) => {
            report.case(sig);
            report.count("random_set_ops_checked", n);
            if i % 997 == 3 && report.want_sample() {
                report.sample(json!({"part": "random-maps", "case": i, "a_ops": logs.first(), "pools": pools.frags}));
            }
        }
        Err(p) => {
            report.case(None);
            sink.violation_lazy("treemap:panic-in-random-ops", &p, || {
                json!({"seed": report.seed as i64, "part": "random-maps", "case": i, "panic": p, "op_logs": logs, "fragment_pool": pools.frags})
            });
        }
    }
    for (c, d) in fails {
        let pre = if c.starts_with("mask-") { "mask:" } else { "treemap:" };
        sink.violation_lazy(&format!("{pre}{c}"), &d, || {
            json!({"seed": report.seed as i64, "part": "random-maps", "case": i, "detail": d, "op_logs": logs, "fragment_pool": pools.frags,
                "replay": format!("e_sets C21 --seed {} --case {i}", report.seed as i64)})
        });
    }
}

/// `DeletionVector` (per-fragment set of deleted offsets) against a BTreeSet<u32>.
fn deletion_vector_case(report: &Report, sink: &Sink, i: u64) {
    let mut rng = Rng::for_case(report.seed, i);
    let mut log: Vec<String> = vec![];
    let mut summary = (0usize, None, None, false);
    let r = guarded(|| deletion_vector_ops(&mut rng, &mut log, &mut summary));
    report.case((summary.0 >= 2).then(|| hash_of(&("dv", summary.0, summary.1, summary.2, summary.3))));
    report.count("deletion_vector_cases", 1);
    match r {
        Ok(Ok(())) => {}
        Ok(Err((sig, what))) => sink.violation_lazy(&sig, &what, || json!({"seed": report.seed as i64, "part": "deletion-vector", "case": i, "ops": log, "detail": what, "replay": format!("e_sets C21 --seed {} --case {i}", report.seed as i64)})),
        Err(p) => sink.violation_lazy("deletion-vector:panic", &p, || json!({"seed": report.seed as i64, "part": "deletion-vector", "case": i, "ops": log, "panic": p})),
    }
}

// bit vectors over a larger universe
type Bv = Vec<u64>;
fn bv_get(b: &Bv, i: usize) -> bool {
    b[i / 64] >> (i % 64) & 1 == 1
}
fn bv_set(b: &mut Bv, i: usize) {
    b[i / 64] |= 1 << (i % 64);
}
fn truth_bv(s: &Shape, xs: &[Bv], next: &mut usize, full: &Bv) -> Bv {
    match s {
        Shape::Leaf => {
            let v = xs[*next].clone();
            *next += 1;
            v
        }
        Shape::Not(a) => truth_bv(a, xs, next, full).iter().zip(full).map(|(x, f)| !x & f).collect(),
        Shape::And(a, b) => {
            let l = truth_bv(a, xs, next, full);
            let r = truth_bv(b, xs, next, full);
            l.iter().zip(&r).map(|(x, y)| x & y).collect()
        }
        Shape::Or(a, b) => {
            let l = truth_bv(a, xs, next, full);
            let r = truth_bv(b, xs, next, full);
            l.iter().zip(&r).map(|(x, y)| x | y).collect()
        }
    }
}

fn random_shape(rng: &mut Rng, depth: usize, leaves_left: &mut usize) -> Shape {
    if depth <= 1 || *leaves_left <= 1 || rng.chance(1, 5) {
        *leaves_left = leaves_left.saturating_sub(1);
        return Shape::Leaf;
    }
    match rng.below(5) {
        0 | 1 => Shape::Not(Box::new(random_shape(rng, depth - 1, leaves_left))),
        2 | 3 => {
            let a = random_shape(rng, depth - 1, leaves_left);
            let b = random_shape(rng, depth - 1, leaves_left);
            Shape::And(Box::new(a), Box::new(b))
        }
        _ => {
            let a = random_shape(rng, depth - 1, leaves_left);
            let b = random_shape(rng, depth - 1, leaves_left);
            Shape::Or(Box::new(a), Box::new(b))
        }
    }
}

fn random_eval_case(report: &Report, sink: &Sink, i: u64) {
    let mut rng = Rng::for_case(report.seed, i);
    // universe: 2..4 fragments, rows at the start of each fragment (+ a few far offsets)
    let nf = rng.urange(2, 4);
    let mut u: Vec<u64> = vec![];
    let mut frag_rows: Vec<(u32, Vec<usize>)> = vec![];
    let mut f = *rng.pick(&[0u32, 1, 100, 65_535]);
    for _ in 0..nf {
        let n = rng.urange(1, 300);
        let mut idxs = vec![];
        for o in 0..n {
            idxs.push(u.len());
            u.push(addr(f, o as u32));
        }
        if rng.chance(1, 3) {
            idxs.push(u.len());
            u.push(addr(f, u32::MAX));
        }
        frag_rows.push((f, idxs));
        f += 1 + if rng.bool() { 0 } else { rng.below(50) as u32 };
    }
    let words = u.len().div_ceil(64);
    let mut full: Bv = vec![0; words];
    for k in 0..u.len() {
        bv_set(&mut full, k);
    }
    let mut leaves_left = rng.urange(2, 8);
    let max_depth = rng.urange(2, 6);
    let shape = random_shape(&mut rng, max_depth, &mut leaves_left);
    let n = shape.leaves();
    let mut xs: Vec<Bv> = vec![];
    let mut leafs = vec![];
    let mut desc = vec![];
    for _ in 0..n {
        let kind = rng.below(3) as u8;
        let dens = *rng.pick(&[0u64, 1, 10, 50, 90, 100]);
        let mut x: Bv = vec![0; words];
        let mut r: Bv = vec![0; words];
        for k in 0..u.len() {
            let in_x = rng.below(100) < dens;
            if in_x {
                bv_set(&mut x, k);
            }
            let in_r = match kind {
                EXACT => in_x,
                AT_MOST => in_x || rng.chance(1, 4),
                _ => in_x && rng.chance(3, 4),
            };
            if in_r {
                bv_set(&mut r, k);
            }
        }
        let mut set = RowIdTreeMap::new();
        let mut marks = 0;
        for (f, idxs) in &frag_rows {
            let all = idxs.iter().all(|k| bv_get(&r, *k));
            if all && rng.bool() && shape.marker_safe() {
                set.insert_fragment(*f);
                marks += 1;
            } else {
                for k in idxs {
                    if bv_get(&r, *k) {
                        set.insert(u[*k]);
                    }
                }
            }
        }
        desc.push(json!({"kind": KIND_NAMES[kind as usize], "density_pct": dens, "full_fragment_markers": marks}));
        xs.push(x);
        leafs.push((kind, set));
    }
    let index = Arc::new(MockIndex::default());
    *index.leaves.write().unwrap() = leafs;
    let loader = MockLoader { index };
    let expr = shape.to_expr();
    let (kind, mask) = match guarded(|| run_evaluate(&expr, &loader)) {
        Ok(Ok(x)) => x,
        Ok(Err(e)) => {
            report.case(None);
            sink.violation_lazy("evaluate:error-on-accepted-expression", &e, || json!({"seed": report.seed as i64, "case": i, "expr": shape.text()}));
            return;
        }
        Err(p) => {
            report.case(None);
            sink.violation_lazy("evaluate:panic", &p, || json!({"seed": report.seed as i64, "case": i, "expr": shape.text()}));
            return;
        }
    };
    let t = truth_bv(&shape, &xs, &mut 0, &full);
    let (mut missing, mut extra, mut sel) = (0u64, 0u64, 0u64);
    let mut first_bad = None;
    for k in 0..u.len() {
        let s = obs_selected(&mask, u[k]);
        let tt = bv_get(&t, k);
        sel += s as u64;
        if tt && !s {
            missing += 1;
            first_bad.get_or_insert(u[k]);
        }
        if s && !tt {
            extra += 1;
            first_bad.get_or_insert(u[k]);
        }
    }
    let class = match kind {
        EXACT => match (missing > 0, extra > 0) {
            (false, false) => None,
            (true, false) => Some("drops-matching-rows"),
            (false, true) => Some("selects-non-matching-rows"),
            _ => Some("drops-and-adds-rows"),
        },
        AT_MOST => (missing > 0).then_some("drops-matching-rows"),
        _ => (extra > 0).then_some("selects-non-matching-rows"),
    };
    report.count("random_evaluate_rows_compared", u.len() as u64);
    let nt = sel != 0 && sel != u.len() as u64;
    report.case(nt.then(|| hash_of(&("reval", shape.text(), &xs))));
    if i % 1009 == 5 && report.want_sample() {
        report.sample(json!({"part": "random-evaluate", "case": i, "expr": shape.text(), "leaves": desc,
            "universe_rows": u.len(), "result_kind": KIND_NAMES[kind as usize], "selected": sel}));
    }
    if let Some(class) = class {
        let two = negates_two_list_mask(&expr, &loader);
        let sig = format!(
            "evaluate:{}-guarantee-broken:{}:{}",
            KIND_NAMES[kind as usize],
            class,
            if two { "tree-negates-mask-with-allow-and-block-list" } else { "no-two-list-negation" }
        );
        let what = format!("{} claims {} but {missing} matching rows are dropped and {extra} non-matching rows selected of {}", shape.text(), KIND_NAMES[kind as usize], u.len());
        sink.violation_lazy(&sig, &what, || {
            json!({"seed": report.seed as i64, "part": "random-evaluate", "case": i, "expr": shape.text(), "leaves": desc,
                "missing": missing, "extra": extra, "first_bad_address": first_bad, "result_mask_lists": [mask.allow_list.is_some(), mask.block_list.is_some()]})
        });
    }
}

// ------------------------------------------------------------------------------------------
// child-process probes: calls that may not terminate are never made in the checking process

fn probe_main(name: &str) -> i32 {
    let mut m = RowIdTreeMap::new();
    let (n, want): (u64, Vec<u64>) = match name {
        "range_to_u64_max" => (m.insert_range(u64::MAX - 3..=u64::MAX), (u64::MAX - 3..=u64::MAX).collect()),
        "range_in_last_fragment" => {
            let lo = addr(u32::MAX, 10);
            (m.insert_range(lo..lo + 5), (lo..lo + 5).collect())
        }
        "range_control" => {
            let lo = addr(u32::MAX - 1, 10);
            (m.insert_range(lo..lo + 5), (lo..lo + 5).collect())
        }
        _ => return 3,
    };
    let got: Option<Vec<u64>> = m.row_ids().map(|it| it.map(u64::from).collect());
    if n == want.len() as u64 && got.as_ref() == Some(&want) {
        println!("PROBE-OK");
        0
    } else {
        println!("PROBE-MISMATCH count={n} got={:?}", got.map(|g| g.len()));
        4
    }
}

fn run_probe(name: &str) -> Result<String, String> {
    let exe = std::env::current_exe().map_err(|e| e.to_string())?;
    let cmd = format!("ulimit -v 150000; exec '{}' C21 --probe {}", exe.display(), name);
    let mut child = std::process::Command::new("sh")
        .arg("-c")
        .arg(cmd)
        .stdout(std::process::Stdio::piped())
        .stderr(std::process::Stdio::null())
        .spawn()
        .map_err(|e| e.to_string())?;
    let start = std::time::Instant::now();
    loop {
        match child.try_wait() {
            Ok(Some(st)) => {
                let mut out = String::new();
                if let Some(mut o) = child.stdout.take() {
                    use std::io::Read;
                    let _ = o.read_to_string(&mut out);
                }
                return Ok(if st.success() && out.contains("PROBE-OK") {
                    "ok".into()
                } else if out.contains("PROBE-MISMATCH") {
                    format!("mismatch: {}", out.trim())
                } else {
                    format!("died: {st}")
                });
            }
            Ok(None) => {
                if start.elapsed().as_secs() >= 120 {
                    let _ = child.kill();
                    let _ = child.wait();
                    return Ok("timeout".into());
                }
                std::thread::sleep(std::time::Duration::from_millis(20));
            }
            Err(e) => return Err(e.to_string()),
        }
    }
}

fn probes(report: &Report, sink: &Sink) {
    match run_probe("range_control") {
        Ok(s) if s == "ok" => {}
        other => {
            report.inconclusive(&format!("child probe mechanism unusable (control probe: {other:?})"));
            return;
        }
    }
    let names = ["range_to_u64_max", "range_in_last_fragment"];
    let outcomes: Vec<Result<String, String>> = std::thread::scope(|sc| {
        let hs: Vec<_> = names.iter().map(|n| sc.spawn(move || run_probe(n))).collect();
        hs.into_iter().map(|h| h.join().unwrap_or_else(|_| Err("probe thread panicked".into()))).collect()
    });
    for (name, out) in names.iter().zip(outcomes) {
        match out {
            Ok(s) if s == "ok" => report.count("child_probes_ok", 1),
            Ok(s) if s == "timeout" => report.inconclusive(&format!("probe {name}: still running after 120 s (killed); not counted as a violation")),
            Ok(s) => {
                // the child runs under `ulimit -v 150 MB`: a call that should add a handful of rows
                // and instead dies from memory exhaustion is a deterministic observation
                let class = if s.starts_with("mismatch") { "wrong-content" } else { "does-not-terminate-or-exhausts-memory" };
                sink.violation_lazy(
                    &format!("treemap:insert_range:range-ending-in-fragment-u32max:{class}"),
                    &format!("probe {name}: {s} (child limited to 150 MB address space; the same call in fragment u32::MAX-1 returns at once)"),
                    || json!({"probe": name, "outcome": s, "replay": format!("e_sets C21 --probe {name}")}),
                );
            }
            Err(e) => report.inconclusive(&format!("probe {name}: {e}")),
        }
        report.case(Some(hash_of(&("probe", name))));
    }
}

// ------------------------------------------------------------------------------------------

/// Operations that turn a full-fragment marker into an explicit 2^32-row bitmap (measured: about
/// 10 s and 512 MB each in this build). Run on one background thread while the rest proceeds.
fn heavy_ops(report: &Report, sink: &Sink, seed: u64) {
    let mut rng = Rng::for_case(seed, 0xEA51);
    let mut k = 0u64;
    while report.elapsed_s() < report.budget_s() as f64 * 0.6 {
        let f = *rng.pick(&[0u32, 1, 7, 65_536, 0xFFFF_FFFE]);
        let off = *rng.pick(&[0u32, 1, 65_535, 65_536, 0x8000_0000, u32::MAX - 1, u32::MAX]);
        let mut p = Pair::new();
        p.touched.insert(f);
        let which = (seed + k) % 3;
        let r = guarded(|| -> Result<(), Fail> {
            match which {
                0 => {
                    p.real.insert_fragment(f);
                    p.model = IvSet::fragment(f);
                    p.log.push(format!("insert_fragment({f}); remove({:#x})", addr(f, off)));
                    let got = p.real.remove(addr(f, off));
                    let want = p.model.remove(addr(f, off));
                    if got != want {
                        return Err(("remove:return-value".into(), format!("remove from full fragment returned {got}")));
                    }
                    p.check("remove-from-full-fragment")
                }
                1 => {
                    p.real.insert_fragment(f);
                    p.model = IvSet::fragment(f);
                    let mut b = RowIdTreeMap::new();
                    b.insert(addr(f, off));
                    b.insert(addr(f, off ^ 1));
                    p.log.push(format!("full({f}) -= {{{off}, {}}}", off ^ 1));
                    p.real -= &b;
                    p.model = p.model.minus(&IvSet::from_points([addr(f, off), addr(f, off ^ 1)]));
                    p.check("full-fragment-minus-partial")
                }
                _ => {
                    p.touched.insert(f + 1);
                    let r = RangeSpec { s: B::Inc(addr(f, off)), e: B::Exc(addr(f + 1, 3)) };
                    p.real.insert(addr(f, 0));
                    p.model.insert(addr(f, 0));
                    apply_range(&mut p, r, true)
                }
            }
        });
        match r {
            Ok(Ok(())) => report.count("heavy_full_fragment_ops_checked", 1),
            Ok(Err((c, d))) => sink.violation_lazy(&format!("treemap:{c}"), &d, || json!({"seed": seed as i64, "part": "heavy", "ops": p.log, "detail": d})),
            Err(e) => sink.violation_lazy("treemap:panic-in-heavy-op", &e, || json!({"seed": seed as i64, "part": "heavy", "ops": p.log})),
        }
        report.case(Some(hash_of(&("heavy", which, f, off))));
        k += 1;
        if report.tier == Tier::Quick {
            break;
        }
    }
}

fn selftest(args: &Args) -> i32 {
    quiet_panics();
    let small = Small::from_seed(args.seed);
    let mut a = args.clone();
    a.prop = "C21-selftest".into();
    std::env::set_var("VERIF_EVIDENCE_OUT", "/dev/null");
    let report = Report::new(&a, "exploration", "selftest", (60, 60));
    let mut ok = true;
    // 1. corrupted `selected` observation
    let sink = Sink::collecting();
    CORRUPT_SELECTED.store(small.u[1], Ordering::Relaxed);
    CORRUPT_ON.store(true, Ordering::Relaxed);
    exhaustive_masks(&report, &sink, &small);
    CORRUPT_ON.store(false, Ordering::Relaxed);
    let caught1 = sink.n_signatures() > 0;
    println!("SELFTEST corrupted-selected caught={caught1}");
    ok &= caught1;
    // 2. corrupted evaluate result (one bit flipped for one leaf assignment per unit)
    let base = Sink::collecting();
    let d3: Vec<Shape> = all_shapes(3, 3);
    exhaustive_evaluate(&report, &base, &small, &d3, &|| false);
    let sink = Sink::collecting();
    CORRUPT_EVAL.store(true, Ordering::Relaxed);
    exhaustive_evaluate(&report, &sink, &small, &d3, &|| false);
    CORRUPT_EVAL.store(false, Ordering::Relaxed);
    let new: Vec<String> = sink.signatures().into_iter().filter(|s| !base.signatures().contains(s)).collect();
    println!("SELFTEST corrupted-evaluate new signatures={new:?}");
    ok &= !new.is_empty();
    // 3. model deviates from the real map by one element
    let p = small.pair(0b0111, false);
    let mut m = p.model.clone();
    m.remove(small.u[2]);
    let caught3 = check_map(&p.real, &m, &p.touched).is_err();
    println!("SELFTEST map-vs-model-one-row caught={caught3}");
    ok &= caught3;
    if ok {
        println!("SELFTEST C21 ok");
        0
    } else {
        println!("SELFTEST C21 FAILED");
        2
    }
}

pub fn run(args: &Args) -> i32 {
    if let Some(p) = args.extra.get("probe") {
        return probe_main(p);
    }
    if is_selftest(args) {
        return selftest(args);
    }
    quiet_panics();
    arm_watchdog(args.tier.pick(240, 1500));
    let rule = "Enumerated completely: (a) all pairs of the 23 representations (explicit / full-fragment marker) of the 16 subsets of a 4-address, 2-fragment universe under |,&,- (+assign forms, union_all, extend, serde); (b) all 576x576 pairs of RowIdMask (allow,block in {None}+23) under !,&,|,also_block,also_allow,mask, arrow round trip, selected_indices, iter_ids; (c) ScalarIndexExpr::evaluate on ALL 29 tree shapes of depth<=3 with <=3 leaves (and, when `evaluate_depth4_enumeration_complete` is true, also all 139 shapes of depth 4) x {Exact,AtMost,AtLeast}^leaves x 16^leaves returned sets (explicit rows; and again with full-fragment markers for the shapes whose OR nodes have NOT-free operands), each checked against EVERY leaf truth assignment consistent with the leaf kinds. Plus seeded random large tree maps/masks (ranges at 2^32 boundaries, empty/reversed ranges, full-fragment markers) random evaluate trees (depth<=6, <=8 leaves, <=1200 rows), and DeletionVector op sequences (extend across the 5000-entry Set/Bitmap threshold, contains/contains_range/iteration/predicate/OffsetMapper) against a BTreeSet<u32>. A case is non-trivial when both operands are non-empty (sets/masks) or the expression has an operator and selects neither none nor all rows.";
    let report = Report::new(args, "exploration", rule, (50, 600)).with_min_nontrivial(1000);
    let sink = Sink::to_report(&report);
    if let Err(e) = model_selfcheck() {
        report.harness_error(&format!("interval-set model self check failed: {e}"));
        return report.finish();
    }
    let small = Small::from_seed(args.seed);
    report.set("small_universe", json!(format!("{small:?}")));
    if let Some(c) = args.extra.get("case").and_then(|c| c.parse::<u64>().ok()) {
        // replay of one random case
        if c % 4 == 0 {
            random_eval_case(&report, &sink, c);
        } else if c % 8 == 1 {
            deletion_vector_case(&report, &sink, c);
        } else {
            random_map_case(&report, &sink, c);
        }
        sink.flush();
        return report.finish();
    }
    let parts = args.extra.get("parts").cloned().unwrap_or_else(|| "heavy,probes,maps,masks,eval,random".into());
    let on = |p: &str| parts.split(',').any(|x| x == p);
    let lap = |name: &str| {
        report.set(&format!("t_after_{name}_s"), json!((report.elapsed_s() * 10.0).round() / 10.0));
    };
    std::thread::scope(|sc| {
        if on("heavy") && args.tier == Tier::Thorough {
            sc.spawn(|| heavy_ops(&report, &sink, args.seed));
        }
        if on("probes") {
            sc.spawn(|| probes(&report, &sink));
        }
        if on("maps") {
            exhaustive_maps(&report, &sink, &small, 0);
            lap("maps");
        }
        if on("masks") {
            exhaustive_masks(&report, &sink, &small);
            lap("masks");
        }
        if on("eval") {
            let all = all_shapes(4, 3);
            let d3: Vec<Shape> = all.iter().filter(|s| s.depth() <= 3).cloned().collect();
            let mut d4: Vec<Shape> = all.iter().filter(|s| s.depth() > 3).cloned().collect();
            d4.sort_by_key(|s| s.leaves());
            // depth <= 3: always completed (about 3.1 M evaluate calls)
            let c3 = exhaustive_evaluate(&report, &sink, &small, &d3, &|| false);
            report.exhaustive(c3);
            lap("evaluate_depth3");
            // depth 4: completed when time allows (always in the thorough tier)
            let frac = args.tier.pick(0.7, 0.8);
            let c4 = exhaustive_evaluate(&report, &sink, &small, &d4, &|| report.elapsed_s() > report.budget_s() as f64 * frac);
            report.set("evaluate_depth4_enumeration_complete", json!(c4));
            lap("evaluate_depth4");
        }
        if on("random") {
            // random large cases until the budget ends
            let max_cases: u64 = args.tier.pick(400_000, 20_000_000);
            fan_out(n_threads(), 1, max_cases, &|| report.time_left(), &|i| {
                let t0 = std::time::Instant::now();
                if i % 4 == 0 {
                    random_eval_case(&report, &sink, i);
                } else if i % 8 == 1 {
                    deletion_vector_case(&report, &sink, i);
                } else {
                    random_map_case(&report, &sink, i);
                }
                if t0.elapsed().as_secs_f64() > 2.0 {
                    report.count("slow_random_cases_over_2s", 1);
                    eprintln!("note: C21 random case {i} took {:.1} s", t0.elapsed().as_secs_f64());
                }
            });
            lap("random");
        }
    });
    if args.tier == Tier::Thorough {
        report.assume("thorough tier runs all heavy (512 MB bitmap) full-fragment subtractions of the small universe");
    }
    report.assume("insert_bitmap is only applied to fragments that are not present (its only use in the repo)");
    report.assume("ranges whose end lies in fragment u32::MAX are executed in a child process only (may not terminate)");
    sink.flush();
    report.finish()
}

#[allow(dead_code)]
fn _unused(_: BTreeSet<u32>) {}
