//! Plain model of a set of u64 as sorted, disjoint, non-adjacent inclusive intervals.
//! Independent of roaring / RowIdTreeMap: only integer comparisons. A "full fragment" f is the
//! interval [f<<32, f<<32 | 0xFFFF_FFFF]; the complement is taken in the whole u64 domain.
use std::collections::BTreeSet;

#[derive(Clone, Debug, PartialEq, Eq, Default, Hash)]
pub struct IvSet {
    iv: Vec<(u64, u64)>,
}

impl IvSet {
    pub fn new() -> Self {
        Self { iv: vec![] }
    }
    pub fn all() -> Self {
        Self {
            iv: vec![(0, u64::MAX)],
        }
    }
    pub fn from_intervals(mut v: Vec<(u64, u64)>) -> Self {
        v.retain(|(a, b)| a <= b);
        v.sort();
        let mut out: Vec<(u64, u64)> = Vec::with_capacity(v.len());
        for (a, b) in v {
            if let Some(last) = out.last_mut() {
                if a <= last.1 || (last.1 != u64::MAX && a == last.1 + 1) {
                    if b > last.1 {
                        last.1 = b;
                    }
                    continue;
                }
            }
            out.push((a, b));
        }
        Self { iv: out }
    }
    pub fn from_points<I: IntoIterator<Item = u64>>(it: I) -> Self {
        Self::from_intervals(it.into_iter().map(|x| (x, x)).collect())
    }
    pub fn interval(lo: u64, hi: u64) -> Self {
        Self::from_intervals(vec![(lo, hi)])
    }
    pub fn fragment(f: u32) -> Self {
        let lo = (f as u64) << 32;
        Self::interval(lo, lo | 0xFFFF_FFFF)
    }
    pub fn intervals(&self) -> &[(u64, u64)] {
        &self.iv
    }
    pub fn is_empty(&self) -> bool {
        self.iv.is_empty()
    }
    pub fn contains(&self, x: u64) -> bool {
        // first interval with lo > x, then look at the one before
        let i = self.iv.partition_point(|(lo, _)| *lo <= x);
        i > 0 && self.iv[i - 1].1 >= x
    }
    pub fn card(&self) -> u128 {
        self.iv
            .iter()
            .map(|(a, b)| (*b as u128) - (*a as u128) + 1)
            .sum()
    }
    pub fn union(&self, o: &Self) -> Self {
        let mut v = self.iv.clone();
        v.extend_from_slice(&o.iv);
        Self::from_intervals(v)
    }
    pub fn complement(&self) -> Self {
        let mut out = vec![];
        let mut next: Option<u64> = Some(0); // next candidate start; None = past u64::MAX
        for (a, b) in &self.iv {
            if let Some(n) = next {
                if *a > n {
                    out.push((n, *a - 1));
                }
            }
            next = if *b == u64::MAX { None } else { Some(*b + 1) };
        }
        if let Some(n) = next {
            out.push((n, u64::MAX));
        }
        Self { iv: out }
    }
    pub fn intersect(&self, o: &Self) -> Self {
        let (mut i, mut j) = (0, 0);
        let mut out = vec![];
        while i < self.iv.len() && j < o.iv.len() {
            let (a1, b1) = self.iv[i];
            let (a2, b2) = o.iv[j];
            let lo = a1.max(a2);
            let hi = b1.min(b2);
            if lo <= hi {
                out.push((lo, hi));
            }
            if b1 < b2 {
                i += 1;
            } else {
                j += 1;
            }
        }
        Self { iv: out }
    }
    pub fn minus(&self, o: &Self) -> Self {
        self.intersect(&o.complement())
    }
    /// returns true iff x was not present
    pub fn insert(&mut self, x: u64) -> bool {
        if self.contains(x) {
            return false;
        }
        *self = self.union(&Self::interval(x, x));
        true
    }
    /// returns true iff x was present
    pub fn remove(&mut self, x: u64) -> bool {
        if !self.contains(x) {
            return false;
        }
        *self = self.minus(&Self::interval(x, x));
        true
    }
    /// ascending iteration (the caller bounds the size via `card`)
    pub fn iter(&self) -> impl Iterator<Item = u64> + '_ {
        self.iv.iter().flat_map(|(a, b)| *a..=*b)
    }
    /// the part of the set inside fragment f, as inclusive u32 offset intervals
    pub fn frag(&self, f: u32) -> Vec<(u32, u32)> {
        let lo = (f as u64) << 32;
        let hi = lo | 0xFFFF_FFFF;
        self.intersect(&Self::interval(lo, hi))
            .iv
            .iter()
            .map(|(a, b)| (*a as u32, *b as u32))
            .collect()
    }
    /// Fragments that contain an interval end point (an interval spanning many fragments
    /// contributes its first two and last two fragments only).
    pub fn frags(&self) -> BTreeSet<u32> {
        let mut s = BTreeSet::new();
        for (a, b) in &self.iv {
            let fa = (*a >> 32) as u32;
            let fb = (*b >> 32) as u32;
            if fb - fa <= 4 {
                for f in fa..=fb {
                    s.insert(f);
                }
            } else {
                s.insert(fa);
                s.insert(fa + 1);
                s.insert(fb - 1);
                s.insert(fb);
            }
        }
        s
    }
    /// interval end points and their neighbours: the places where a wrong implementation of an
    /// interval-structured set is most likely to disagree
    pub fn probes(&self) -> Vec<u64> {
        let mut v = vec![];
        for (a, b) in &self.iv {
            for x in [*a, *b] {
                v.push(x);
                v.push(x.wrapping_sub(1));
                v.push(x.wrapping_add(1));
            }
        }
        v
    }
    pub fn brief(&self) -> String {
        let mut s = String::new();
        for (i, (a, b)) in self.iv.iter().enumerate() {
            if i >= 12 {
                s.push_str(&format!("…(+{} intervals)", self.iv.len() - i));
                break;
            }
            if !s.is_empty() {
                s.push(' ');
            }
            let fa = a >> 32;
            let fb = b >> 32;
            if a == b {
                s.push_str(&format!("{}:{}", fa, *a as u32));
            } else {
                s.push_str(&format!("{}:{}-{}:{}", fa, *a as u32, fb, *b as u32));
            }
        }
        format!("{{{}}}", s)
    }
}

#[cfg(test)]
mod tests {
    use super::*;
    #[test]
    fn basics() {
        let a = IvSet::from_points([1, 2, 3, 10, u64::MAX]);
        assert_eq!(a.intervals(), &[(1, 3), (10, 10), (u64::MAX, u64::MAX)]);
        assert_eq!(a.complement().complement(), a);
        assert!(a.contains(2) && !a.contains(4) && a.contains(u64::MAX));
        assert_eq!(a.card(), 5);
        assert_eq!(IvSet::all().complement(), IvSet::new());
        assert_eq!(IvSet::new().complement(), IvSet::all());
    }
}
