//! Helpers shared by the e_sets checks: violation sink (dedup + selftest mode), panic capture,
//! worker-thread fan-out.
use serde_json::{json, Value};
use std::collections::BTreeMap;
use std::panic::{catch_unwind, AssertUnwindSafe};
use std::sync::atomic::{AtomicU64, Ordering};
use std::sync::Mutex;
use vmon::report::{Args, Report};

/// Where oracles send refuting observations. In normal mode the first witness of each narrow
/// signature goes to `Report::violation` (later ones are only counted, keeping the run cheap when
/// one defect refutes millions of enumerated cases). In selftest mode nothing reaches the report:
/// signatures are collected so the selftest can assert that a corrupted observation was noticed.
pub struct Sink<'a> {
    report: Option<&'a Report>,
    seen: Mutex<BTreeMap<String, u64>>,
    first_what: Mutex<BTreeMap<String, String>>,
}

impl<'a> Sink<'a> {
    pub fn to_report(r: &'a Report) -> Self {
        Self {
            report: Some(r),
            seen: Mutex::new(BTreeMap::new()),
            first_what: Mutex::new(BTreeMap::new()),
        }
    }
    pub fn collecting() -> Self {
        Self {
            report: None,
            seen: Mutex::new(BTreeMap::new()),
            first_what: Mutex::new(BTreeMap::new()),
        }
    }
    pub fn violation(&self, sig: &str, what: &str, witness: Value) {
        let first = {
            let mut g = self.seen.lock().unwrap();
            let e = g.entry(sig.to_string()).or_insert(0);
            *e += 1;
            *e == 1
        };
        if first {
            self.first_what.lock().unwrap().insert(sig.to_string(), what.chars().take(300).collect());
            if let Some(r) = self.report {
                r.violation(sig, what, witness);
            }
        }
    }
    /// Like `violation`, but the (possibly expensive) witness is only built for the first
    /// observation of a signature.
    pub fn violation_lazy(&self, sig: &str, what: &str, witness: impl FnOnce() -> Value) {
        let first = {
            let mut g = self.seen.lock().unwrap();
            let e = g.entry(sig.to_string()).or_insert(0);
            *e += 1;
            *e == 1
        };
        if first {
            self.first_what.lock().unwrap().insert(sig.to_string(), what.chars().take(300).collect());
            if let Some(r) = self.report {
                r.violation(sig, what, witness());
            }
        }
    }
    /// `n` observations of one signature at once (thread-local aggregation in hot loops).
    pub fn violation_n(&self, sig: &str, what: &str, witness: Value, n: u64) {
        let first = {
            let mut g = self.seen.lock().unwrap();
            let e = g.entry(sig.to_string()).or_insert(0);
            let first = *e == 0;
            *e += n;
            first
        };
        if first {
            self.first_what.lock().unwrap().insert(sig.to_string(), what.chars().take(300).collect());
            if let Some(r) = self.report {
                r.violation(sig, what, witness);
            }
        }
    }
    pub fn n_signatures(&self) -> usize {
        self.seen.lock().unwrap().len()
    }
    /// (signature, first description) of everything collected (used by the Miri leg)
    pub fn signatures_with_what(&self) -> Vec<(String, String)> {
        self.first_what.lock().unwrap().iter().map(|(k, v)| (k.clone(), v.clone())).collect()
    }
    pub fn signatures(&self) -> Vec<String> {
        self.seen.lock().unwrap().keys().cloned().collect()
    }
    pub fn has_prefix(&self, p: &str) -> bool {
        self.seen.lock().unwrap().keys().any(|k| k.starts_with(p))
    }
    /// Record per-signature witness counts in the evidence.
    pub fn flush(&self) {
        if let Some(r) = self.report {
            let g = self.seen.lock().unwrap();
            if !g.is_empty() {
                r.set(
                    "refuting_observations_by_signature",
                    json!(g.iter().map(|(k, v)| (k.clone(), json!(v))).collect::<serde_json::Map<_, _>>()),
                );
            }
        }
    }
}

pub fn is_selftest(args: &Args) -> bool {
    args.extra.contains_key("selftest")
}

/// Run `f`, turning a panic into Err(message).
pub fn guarded<T>(f: impl FnOnce() -> T) -> Result<T, String> {
    catch_unwind(AssertUnwindSafe(f)).map_err(|e| {
        if let Some(s) = e.downcast_ref::<String>() {
            s.clone()
        } else if let Some(s) = e.downcast_ref::<&str>() {
            s.to_string()
        } else {
            "non-string panic payload".to_string()
        }
    })
}

/// Silence the default panic hook output for panics we catch on purpose (keeps logs readable);
/// the message is still returned by `guarded`.
pub fn quiet_panics() {
    std::panic::set_hook(Box::new(|_| {}));
}

/// Run `work(case_index)` for case indices handed out from a shared counter on `threads`
/// threads until `limit` cases are done or `keep_going()` is false.
pub fn fan_out(
    threads: usize,
    start: u64,
    limit: u64,
    keep_going: &(dyn Fn() -> bool + Sync),
    work: &(dyn Fn(u64) + Sync),
) -> u64 {
    let next = AtomicU64::new(start);
    let end = start.saturating_add(limit);
    std::thread::scope(|s| {
        for _ in 0..threads.max(1) {
            s.spawn(|| loop {
                if !keep_going() {
                    break;
                }
                let i = next.fetch_add(1, Ordering::Relaxed);
                if i >= end {
                    break;
                }
                work(i);
            });
        }
    });
    next.load(Ordering::Relaxed).min(end) - start
}

pub fn n_threads() -> usize {
    if let Some(n) = std::env::var("VERIF_THREADS").ok().and_then(|s| s.parse::<usize>().ok()) {
        return n.clamp(1, 64);
    }
    std::thread::available_parallelism()
        .map(|n| n.get())
        .unwrap_or(4)
        .min(16)
}

pub fn hash_of<T: std::hash::Hash>(t: &T) -> u64 {
    // stable FNV over the std Hash byte stream
    struct F(u64);
    impl std::hash::Hasher for F {
        fn finish(&self) -> u64 {
            self.0
        }
        fn write(&mut self, bytes: &[u8]) {
            for b in bytes {
                self.0 ^= *b as u64;
                self.0 = self.0.wrapping_mul(0x0000_0100_0000_01B3);
            }
        }
    }
    let mut h = F(0xcbf2_9ce4_8422_2325);
    t.hash(&mut h);
    std::hash::Hasher::finish(&h)
}

/// Last-resort guard: a check must never hang. If the process is still alive after `secs`, report a
/// harness error (never a violation) and exit 2.
pub fn arm_watchdog(secs: u64) {
    std::thread::spawn(move || {
        std::thread::sleep(std::time::Duration::from_secs(secs));
        eprintln!("INCONCLUSIVE watchdog: check still running after {secs} s, giving up (harness, not a violation)");
        std::process::exit(2);
    });
}
