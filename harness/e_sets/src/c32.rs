//! C32 — metadata serialisation round trips: decode(encode(x)) == x through the real conversions.
//!
//! Equality = the type's own `PartialEq` plus field-wise comparison where that is deliberately
//! loose (`Schema` ignores metadata, `Operation` ignores vector order). Pure generators; the
//! object-store parts (manifest files, deletion files) are separate async functions.
use crate::common::*;
use arrow_schema::{DataType, Field as AField, Schema as ASchema};
use lance::dataset::refs::{BranchContents, TagContents};
use lance::dataset::transaction::{
    DataReplacementGroup, Operation, RewriteGroup, RewrittenIndex, Transaction, UpdateMap, UpdateMapEntry, UpdateMode,
};
use lance_core::datatypes::Schema;
use lance_core::utils::deletion::DeletionVector;
use lance_encoding::version::LanceFileVersion;
use lance_index::mem_wal::{MemWal, MemWalId, MemWalIndexDetails, State};
use lance_io::object_store::ObjectStore;
use lance_table::format::pb;
use lance_table::format::{
    BasePath, DataFile, DataStorageFormat, DeletionFile, DeletionFileType, ExternalFile, Fragment, IndexMetadata, Manifest, RowIdMeta, WriterVersion,
};
use lance_table::io::commit::{write_manifest_file_to_path, ManifestLocation, ManifestNamingScheme};
use lance_table::io::deletion::{read_deletion_file, write_deletion_file};
use lance_table::io::manifest::{read_manifest, read_manifest_indexes};
use lance_table::rowids::segment::U64Segment;
use lance_table::rowids::version::{
    read_dataset_versions, write_dataset_versions, RowDatasetVersionMeta, RowDatasetVersionRun, RowDatasetVersionSequence,
};
use lance_table::rowids::{read_row_ids, write_row_ids, RowIdSequence};
use object_store::path::Path;
use prost::Message;
use serde_json::{json, Value};
use std::collections::{BTreeSet, HashMap};
use std::num::NonZero;
use std::sync::atomic::{AtomicBool, Ordering};
use std::sync::Arc;
use vmon::prng::Rng;
use vmon::report::{Args, Report};

type Fail = (String, String);

/// selftest: drop one optional field of the decoded value before the oracle compares
static CORRUPT_DECODED: AtomicBool = AtomicBool::new(false);

// ------------------------------------------------------------------------------------------
// generators

fn g_str(rng: &mut Rng) -> String {
    (*rng.pick(&["a", "data/0001.lance", "ünï-cødé", "with space", "x", "k=v;w", "0", "very/long/path/segment/that/goes/on/and/on.lance"])).to_string()
}
fn g_nonempty(rng: &mut Rng) -> String {
    format!("{}{}", g_str(rng), rng.below(1000))
}
fn g_u64(rng: &mut Rng) -> u64 {
    match rng.below(6) {
        0 => 0,
        1 => 1,
        2 => u32::MAX as u64 + rng.below(3),
        3 => u64::MAX - rng.below(3),
        4 => rng.below(1000),
        _ => rng.next_u64(),
    }
}
fn g_u32(rng: &mut Rng) -> u32 {
    match rng.below(4) {
        0 => 0,
        1 => u32::MAX - rng.below(2) as u32,
        _ => rng.below(100_000) as u32,
    }
}
fn g_map(rng: &mut Rng) -> HashMap<String, String> {
    let mut m = HashMap::new();
    for _ in 0..rng.below(4) {
        m.insert(g_nonempty(rng), g_str(rng));
    }
    m
}
fn g_opt<T>(rng: &mut Rng, f: impl FnOnce(&mut Rng) -> T) -> Option<T> {
    if rng.bool() {
        Some(f(rng))
    } else {
        None
    }
}

fn g_schema(rng: &mut Rng, with_meta: bool) -> Schema {
    let n = rng.urange(1, 4);
    let mut fields = vec![];
    for i in 0..n {
        let dt = match rng.below(5) {
            0 => DataType::Int64,
            1 => DataType::Utf8,
            2 => DataType::Struct(vec![AField::new("x", DataType::Int32, true), AField::new("y.z", DataType::Float32, false)].into()),
            3 => DataType::List(Arc::new(AField::new("item", DataType::Utf8, true))),
            _ => DataType::FixedSizeList(Arc::new(AField::new("item", DataType::Float32, true)), 4),
        };
        let mut f = AField::new(format!("c{i}"), dt, rng.bool());
        if rng.chance(1, 3) {
            f = f.with_metadata(g_map(rng));
        }
        fields.push(f);
    }
    let meta = if with_meta { g_map(rng) } else { HashMap::new() };
    Schema::try_from(&ASchema::new_with_metadata(fields, meta)).unwrap()
}

fn g_external(rng: &mut Rng) -> ExternalFile {
    ExternalFile { path: g_nonempty(rng), offset: g_u64(rng), size: g_u64(rng) }
}

fn g_segment(rng: &mut Rng) -> U64Segment {
    match rng.below(4) {
        0 => {
            let a = g_u64(rng) / 2;
            U64Segment::Range(a..a + rng.below(1000))
        }
        _ => {
            let n = rng.urange(0, 40);
            let mut x = rng.below(1 << 40);
            let lim = *rng.pick(&[1u64, 3, 70_000]);
            let step = 1 + rng.below(lim);
            let mut v = vec![];
            for _ in 0..n {
                v.push(x);
                x += 1 + rng.below(step);
            }
            if rng.chance(1, 4) {
                rng.shuffle(&mut v);
            }
            U64Segment::from_slice(&v)
        }
    }
}

fn g_versions(rng: &mut Rng) -> RowDatasetVersionSequence {
    let n_runs = if rng.chance(1, 5) { 60 } else { 5 };
    let runs = (0..rng.below(n_runs)).map(|_| RowDatasetVersionRun { span: g_segment(rng), version: g_u64(rng) }).collect();
    RowDatasetVersionSequence { runs }
}

fn g_version_meta(rng: &mut Rng) -> RowDatasetVersionMeta {
    if rng.chance(1, 4) {
        RowDatasetVersionMeta::External(g_external(rng))
    } else {
        RowDatasetVersionMeta::Inline(write_dataset_versions(&g_versions(rng)))
    }
}

fn g_datafile(rng: &mut Rng) -> DataFile {
    let n = rng.urange(0, 5);
    let fields: Vec<i32> = (0..n).map(|_| *rng.pick(&[0i32, 1, 7, -2, i32::MAX, 1000])).collect();
    let cols: Vec<i32> = if rng.bool() { vec![] } else { (0..n).map(|_| *rng.pick(&[0i32, 1, -1, 9])).collect() };
    let (ma, mi) = *rng.pick(&[(0u32, 2u32), (2, 0), (2, 1), (2, 2), (0, 3)]);
    DataFile::new(g_nonempty(rng), fields, cols, ma, mi, g_opt(rng, |r| NonZero::new(g_u64(r).max(1)).unwrap()), g_opt(rng, g_u32))
}

fn g_deletion_file(rng: &mut Rng) -> DeletionFile {
    DeletionFile {
        read_version: g_u64(rng),
        id: g_u64(rng),
        file_type: if rng.bool() { DeletionFileType::Array } else { DeletionFileType::Bitmap },
        num_deleted_rows: g_opt(rng, |r| r.below(1 << 40) as usize),
        base_id: g_opt(rng, g_u32),
    }
}

fn g_fragment(rng: &mut Rng) -> Fragment {
    let mut f = Fragment::new(g_u64(rng));
    for _ in 0..rng.below(4) {
        f.files.push(g_datafile(rng));
    }
    f.deletion_file = g_opt(rng, g_deletion_file);
    f.row_id_meta = g_opt(rng, |r| {
        if r.chance(1, 4) {
            RowIdMeta::External(g_external(r))
        } else {
            RowIdMeta::Inline(write_row_ids(&g_rowids(r)))
        }
    });
    f.physical_rows = g_opt(rng, |r| 1 + r.below(1 << 33) as usize);
    f.last_updated_at_version_meta = g_opt(rng, g_version_meta);
    f.created_at_version_meta = g_opt(rng, g_version_meta);
    f
}

fn g_frags(rng: &mut Rng) -> Vec<Fragment> {
    (0..rng.below(4)).map(|_| g_fragment(rng)).collect()
}

fn g_rowids(rng: &mut Rng) -> RowIdSequence {
    let mut s = RowIdSequence::new();
    for _ in 0..rng.urange(0, 4) {
        let seg = g_segment(rng);
        let v: Vec<u64> = seg.iter().collect();
        s.extend(RowIdSequence::from(v.as_slice()));
    }
    s
}

/// prost_types::Any without naming the crate: field 1 = type_url, field 2 = value
fn g_any_bytes(rng: &mut Rng) -> Vec<u8> {
    let url = format!("/lance.table.{}", g_nonempty(rng)).replace(' ', "_");
    let vl = rng.usize_below(20);
    let val = rng.bytes(vl);
    let mut out = vec![0x0A, url.len() as u8];
    out.extend(url.as_bytes());
    out.push(0x12);
    out.push(val.len() as u8);
    out.extend(val);
    out
}

fn g_uuid(rng: &mut Rng) -> uuid::Uuid {
    let b = rng.bytes(16);
    let mut a = [0u8; 16];
    a.copy_from_slice(&b);
    uuid::Builder::from_random_bytes(a).into_uuid()
}

fn g_index(rng: &mut Rng) -> IndexMetadata {
    IndexMetadata {
        uuid: g_uuid(rng),
        fields: (0..rng.below(3)).map(|_| rng.below(100) as i32).collect(),
        name: g_str(rng),
        dataset_version: g_u64(rng),
        fragment_bitmap: g_opt(rng, |r| (0..r.below(6)).map(|_| g_u32(r)).collect()),
        index_details: g_opt(rng, |r| Arc::new(Message::decode(&g_any_bytes(r)[..]).unwrap())),
        index_version: *rng.pick(&[0i32, 1, 3, i32::MAX]),
        // stored with millisecond precision
        created_at: g_opt(rng, |r| chrono::DateTime::from_timestamp_millis(r.below(4_000_000_000_000) as i64).unwrap()),
        base_id: g_opt(rng, g_u32),
    }
}

fn g_base_path(rng: &mut Rng, id: u32) -> BasePath {
    BasePath::new(id, format!("s3://bucket/{}", g_nonempty(rng)), g_opt(rng, g_nonempty), rng.bool())
}

fn g_memwal(rng: &mut Rng) -> MemWal {
    MemWal {
        id: MemWalId::new(&g_str(rng), g_u64(rng)),
        mem_table_location: g_str(rng),
        wal_location: g_str(rng),
        wal_entries: pb::U64Segment::from(g_segment(rng)).encode_to_vec(),
        state: rng.pick(&[State::Open, State::Sealed, State::Flushed, State::Merged]).clone(),
        owner_id: g_str(rng),
        last_updated_dataset_version: g_u64(rng),
    }
}

fn g_update_map(rng: &mut Rng) -> UpdateMap {
    UpdateMap {
        update_entries: (0..rng.below(4)).map(|_| UpdateMapEntry { key: g_nonempty(rng), value: g_opt(rng, g_str) }).collect(),
        replace: rng.bool(),
    }
}

const N_OPS: u64 = 15;

fn g_operation(rng: &mut Rng, which: u64) -> (&'static str, Operation) {
    match which % N_OPS {
        0 => ("Append", Operation::Append { fragments: g_frags(rng) }),
        1 => ("Delete", Operation::Delete { updated_fragments: g_frags(rng), deleted_fragment_ids: (0..rng.below(4)).map(|_| g_u64(rng)).collect(), predicate: g_str(rng) }),
        2 => (
            "Overwrite",
            Operation::Overwrite {
                fragments: g_frags(rng),
                schema: g_schema(rng, true),
                config_upsert_values: g_opt(rng, |r| {
                    let mut m = g_map(r);
                    m.insert("k".into(), "v".into());
                    m
                }),
                initial_bases: g_opt(rng, |r| (1..=1 + r.below(3) as u32).map(|i| g_base_path(r, i)).collect()),
            },
        ),
        3 => ("CreateIndex", Operation::CreateIndex { new_indices: (0..rng.below(3)).map(|_| g_index(rng)).collect(), removed_indices: (0..rng.below(3)).map(|_| g_index(rng)).collect() }),
        4 => (
            "Rewrite",
            Operation::Rewrite {
                groups: (0..1 + rng.below(3)).map(|_| RewriteGroup { old_fragments: g_frags(rng), new_fragments: g_frags(rng) }).collect(),
                rewritten_indices: (0..rng.below(3))
                    .map(|_| RewrittenIndex { old_id: g_uuid(rng), new_id: g_uuid(rng), new_index_details: Message::decode(&g_any_bytes(rng)[..]).unwrap(), new_index_version: g_u32(rng) })
                    .collect(),
                frag_reuse_index: g_opt(rng, g_index),
            },
        ),
        5 => ("DataReplacement", Operation::DataReplacement { replacements: (0..rng.below(4)).map(|_| DataReplacementGroup(g_u64(rng), g_datafile(rng))).collect() }),
        6 => ("Merge", Operation::Merge { fragments: g_frags(rng), schema: g_schema(rng, true) }),
        7 => ("Restore", Operation::Restore { version: g_u64(rng) }),
        8 => ("ReserveFragments", Operation::ReserveFragments { num_fragments: g_u32(rng) }),
        9 => (
            "Update",
            Operation::Update {
                removed_fragment_ids: (0..rng.below(4)).map(|_| g_u64(rng)).collect(),
                updated_fragments: g_frags(rng),
                new_fragments: g_frags(rng),
                fields_modified: (0..rng.below(4)).map(|_| g_u32(rng)).collect(),
                mem_wal_to_merge: g_opt(rng, g_memwal),
                fields_for_preserving_frag_bitmap: (0..rng.below(4)).map(|_| g_u32(rng)).collect(),
                update_mode: match rng.below(3) {
                    0 => None,
                    1 => Some(UpdateMode::RewriteRows),
                    _ => Some(UpdateMode::RewriteColumns),
                },
            },
        ),
        10 => ("Project", Operation::Project { schema: g_schema(rng, true) }),
        11 => (
            "UpdateConfig",
            Operation::UpdateConfig {
                config_updates: g_opt(rng, g_update_map),
                table_metadata_updates: g_opt(rng, g_update_map),
                schema_metadata_updates: g_opt(rng, g_update_map),
                field_metadata_updates: (0..rng.below(3)).map(|_| (rng.below(50) as i32, g_update_map(rng))).collect(),
            },
        ),
        12 => ("UpdateMemWalState", Operation::UpdateMemWalState { added: (0..rng.below(3)).map(|_| g_memwal(rng)).collect(), updated: (0..rng.below(3)).map(|_| g_memwal(rng)).collect(), removed: (0..rng.below(3)).map(|_| g_memwal(rng)).collect() }),
        13 => ("Clone", Operation::Clone { is_shallow: rng.bool(), ref_name: g_opt(rng, g_nonempty), ref_version: g_u64(rng), ref_path: g_str(rng), branch_name: g_opt(rng, g_nonempty) }),
        _ => ("UpdateBases", Operation::UpdateBases { new_bases: (1..=1 + rng.below(3) as u32).map(|i| g_base_path(rng, i)).collect() }),
    }
}

fn g_manifest(rng: &mut Rng) -> Manifest {
    let mut frags = g_frags(rng);
    let stable = rng.chance(1, 3);
    if stable {
        for f in frags.iter_mut() {
            if f.row_id_meta.is_none() {
                f.row_id_meta = Some(RowIdMeta::Inline(write_row_ids(&g_rowids(rng))));
            }
        }
    }
    let mut base_paths = HashMap::new();
    for i in 0..rng.below(3) as u32 {
        base_paths.insert(i + 1, g_base_path(rng, i + 1));
    }
    let ver = *rng.pick(&[LanceFileVersion::Legacy, LanceFileVersion::V2_0, LanceFileVersion::V2_1, LanceFileVersion::V2_2]);
    let mut m = Manifest::new(g_schema(rng, true), Arc::new(frags), DataStorageFormat::new(ver), base_paths);
    m.version = match rng.below(4) {
        0 => 1,
        1 => lance_table::format::DETACHED_VERSION_MASK | (rng.next_u64() >> 1), // detached
        _ => g_u64(rng) >> 1,
    };
    m.branch = g_opt(rng, g_nonempty);
    m.writer_version = g_opt(rng, |r| WriterVersion { library: "lance".into(), version: format!("{}.{}.{}", r.below(3), r.below(50), r.below(9)), prerelease: g_opt(r, g_nonempty), build_metadata: g_opt(r, g_nonempty) });
    m.version_aux_data = rng.below(1 << 40) as usize;
    // nanosecond precision timestamps (0 means "not set")
    m.timestamp_nanos = if rng.chance(1, 6) { 0 } else { rng.below(4_000_000_000) as u128 * 1_000_000_000 + rng.below(1_000_000_000) as u128 };
    m.tag = g_opt(rng, g_nonempty);
    m.reader_feature_flags = if stable { 2 } else { 0 } | (rng.below(2) * 1) | (rng.below(2) * 16);
    m.writer_feature_flags = rng.below(64);
    m.max_fragment_id = g_opt(rng, g_u32);
    m.transaction_file = g_opt(rng, g_nonempty);
    m.next_row_id = g_u64(rng);
    m.config = g_map(rng);
    m.table_metadata = g_map(rng);
    m
}

// ------------------------------------------------------------------------------------------
// comparisons

fn schema_eq(a: &Schema, b: &Schema) -> Option<&'static str> {
    if a != b {
        return Some("schema-fields");
    }
    if a.metadata != b.metadata {
        return Some("schema-metadata");
    }
    None
}

/// field-wise, order-sensitive comparison of operations (the type's `==` ignores vector order)
fn op_diff(a: &Operation, b: &Operation) -> Vec<String> {
    let mut out: Vec<String> = vec![];
    use Operation::*;
    macro_rules! cmp {
        ($($name:literal : $x:expr , $y:expr);* $(;)?) => {{ $( if $x != $y { out.push($name.to_string()); } )* }};
    }
    match (a, b) {
        (Append { fragments: x }, Append { fragments: y }) => cmp!("fragments": x, y),
        (Delete { updated_fragments: a1, deleted_fragment_ids: a2, predicate: a3 }, Delete { updated_fragments: b1, deleted_fragment_ids: b2, predicate: b3 }) => {
            cmp!("updated_fragments": a1, b1; "deleted_fragment_ids": a2, b2; "predicate": a3, b3)
        }
        (Overwrite { fragments: a1, schema: a2, config_upsert_values: a3, initial_bases: a4 }, Overwrite { fragments: b1, schema: b2, config_upsert_values: b3, initial_bases: b4 }) => {
            cmp!("fragments": a1, b1; "config_upsert_values": a3, b3; "initial_bases": a4, b4);
            if let Some(d) = schema_eq(a2, b2) {
                out.push(d.to_string());
            }
        }
        (CreateIndex { new_indices: a1, removed_indices: a2 }, CreateIndex { new_indices: b1, removed_indices: b2 }) => cmp!("new_indices": a1, b1; "removed_indices": a2, b2),
        (Rewrite { groups: a1, rewritten_indices: a2, frag_reuse_index: a3 }, Rewrite { groups: b1, rewritten_indices: b2, frag_reuse_index: b3 }) => {
            cmp!("rewritten_indices": a2, b2; "frag_reuse_index": a3, b3);
            if a1.len() != b1.len() || a1.iter().zip(b1).any(|(x, y)| x.old_fragments != y.old_fragments || x.new_fragments != y.new_fragments) {
                out.push("groups".into());
            }
        }
        (DataReplacement { replacements: x }, DataReplacement { replacements: y }) => cmp!("replacements": x, y),
        (Merge { fragments: a1, schema: a2 }, Merge { fragments: b1, schema: b2 }) => {
            cmp!("fragments": a1, b1);
            if let Some(d) = schema_eq(a2, b2) {
                out.push(d.to_string());
            }
        }
        (Restore { version: x }, Restore { version: y }) => cmp!("version": x, y),
        (ReserveFragments { num_fragments: x }, ReserveFragments { num_fragments: y }) => cmp!("num_fragments": x, y),
        (
            Update { removed_fragment_ids: a1, updated_fragments: a2, new_fragments: a3, fields_modified: a4, mem_wal_to_merge: a5, fields_for_preserving_frag_bitmap: a6, update_mode: a7 },
            Update { removed_fragment_ids: b1, updated_fragments: b2, new_fragments: b3, fields_modified: b4, mem_wal_to_merge: b5, fields_for_preserving_frag_bitmap: b6, update_mode: b7 },
        ) => cmp!("removed_fragment_ids": a1, b1; "updated_fragments": a2, b2; "new_fragments": a3, b3; "fields_modified": a4, b4; "mem_wal_to_merge": a5, b5;
                  "fields_for_preserving_frag_bitmap": a6, b6; "update_mode": a7, b7),
        (Project { schema: x }, Project { schema: y }) => {
            if let Some(d) = schema_eq(x, y) {
                out.push(d.to_string());
            }
        }
        (
            UpdateConfig { config_updates: a1, table_metadata_updates: a2, schema_metadata_updates: a3, field_metadata_updates: a4 },
            UpdateConfig { config_updates: b1, table_metadata_updates: b2, schema_metadata_updates: b3, field_metadata_updates: b4 },
        ) => cmp!("config_updates": a1, b1; "table_metadata_updates": a2, b2; "schema_metadata_updates": a3, b3; "field_metadata_updates": a4, b4),
        (UpdateMemWalState { added: a1, updated: a2, removed: a3 }, UpdateMemWalState { added: b1, updated: b2, removed: b3 }) => cmp!("added": a1, b1; "updated": a2, b2; "removed": a3, b3),
        (Clone { is_shallow: a1, ref_name: a2, ref_version: a3, ref_path: a4, branch_name: a5 }, Clone { is_shallow: b1, ref_name: b2, ref_version: b3, ref_path: b4, branch_name: b5 }) => {
            cmp!("is_shallow": a1, b1; "ref_name": a2, b2; "ref_version": a3, b3; "ref_path": a4, b4; "branch_name": a5, b5)
        }
        (UpdateBases { new_bases: x }, UpdateBases { new_bases: y }) => cmp!("new_bases": x, y),
        _ => out.push("variant".into()),
    }
    out
}

// ------------------------------------------------------------------------------------------
// pure round trips

fn rt_fragment(rng: &mut Rng) -> Result<(), Fail> {
    let f = g_fragment(rng);
    let p = pb::DataFragment::from(&f);
    let bytes = p.encode_to_vec();
    let p2 = pb::DataFragment::decode(&bytes[..]).map_err(|e| ("fragment:pb-decode-error".to_string(), e.to_string()))?;
    let mut back = Fragment::try_from(p2).map_err(|e| ("fragment:try_from-error".to_string(), e.to_string()))?;
    if CORRUPT_DECODED.load(Ordering::Relaxed) {
        back.physical_rows = None;
        back.deletion_file = None;
    }
    if back != f {
        let field = if back.files != f.files {
            "files"
        } else if back.deletion_file != f.deletion_file {
            "deletion_file"
        } else if back.row_id_meta != f.row_id_meta {
            "row_id_meta"
        } else if back.physical_rows != f.physical_rows {
            "physical_rows"
        } else if back.last_updated_at_version_meta != f.last_updated_at_version_meta {
            "last_updated_at_version_meta"
        } else if back.created_at_version_meta != f.created_at_version_meta {
            "created_at_version_meta"
        } else {
            "id"
        };
        return Err((format!("fragment:field-lost:{field}"), format!("{f:?} -> {back:?}").chars().take(600).collect()));
    }
    Ok(())
}

fn rt_index(rng: &mut Rng) -> Result<(), Fail> {
    let x = g_index(rng);
    let bytes = pb::IndexMetadata::from(&x).encode_to_vec();
    let p2 = pb::IndexMetadata::decode(&bytes[..]).map_err(|e| ("index:pb-decode-error".to_string(), e.to_string()))?;
    let back = IndexMetadata::try_from(p2).map_err(|e| ("index:try_from-error".to_string(), e.to_string()))?;
    if back != x {
        let field = if back.fragment_bitmap != x.fragment_bitmap {
            "fragment_bitmap"
        } else if back.index_details != x.index_details {
            "index_details"
        } else if back.created_at != x.created_at {
            "created_at"
        } else if back.base_id != x.base_id {
            "base_id"
        } else {
            "other"
        };
        return Err((format!("index:field-lost:{field}"), format!("{x:?} -> {back:?}").chars().take(600).collect()));
    }
    Ok(())
}

fn rt_transaction(rng: &mut Rng, which: u64) -> Result<(&'static str, Vec<Fail>), Fail> {
    let (name, op) = g_operation(rng, which);
    let t = Transaction {
        read_version: g_u64(rng),
        uuid: g_uuid(rng).to_string(),
        operation: op,
        tag: g_opt(rng, g_nonempty),
        transaction_properties: g_opt(rng, |r| {
            let mut m = g_map(r);
            m.insert("p".into(), "q".into());
            Arc::new(m)
        }),
    };
    let bytes = pb::Transaction::from(&t).encode_to_vec();
    let p2 = pb::Transaction::decode(&bytes[..]).map_err(|e| (format!("transaction:{name}:pb-decode-error"), e.to_string()))?;
    let back = Transaction::try_from(p2).map_err(|e| (format!("transaction:{name}:try_from-error"), e.to_string()))?;
    let brief = |t: &Transaction| format!("{t:?}").chars().take(500).collect::<String>();
    if back.read_version != t.read_version || back.uuid != t.uuid {
        return Err((format!("transaction:{name}:field-lost:read_version-or-uuid"), brief(&back)));
    }
    if back.tag != t.tag {
        return Err((format!("transaction:{name}:field-lost:tag"), format!("{:?} -> {:?}", t.tag, back.tag)));
    }
    if back.transaction_properties != t.transaction_properties {
        return Err((format!("transaction:{name}:field-lost:transaction_properties"), String::new()));
    }
    let diffs = op_diff(&t.operation, &back.operation);
    let fails: Vec<Fail> = diffs.iter().map(|d| (format!("transaction:{name}:field-lost:{d}"), format!("{} -> {}", brief(&t), brief(&back)))).collect();
    if diffs.is_empty() && back != t {
        return Err((format!("transaction:{name}:not-equal"), brief(&back)));
    }
    Ok((name, fails))
}

fn rt_manifest_pb(rng: &mut Rng) -> Result<(), Fail> {
    let m = g_manifest(rng);
    let bytes = pb::Manifest::from(&m).encode_to_vec();
    let p2 = pb::Manifest::decode(&bytes[..]).map_err(|e| ("manifest:pb-decode-error".to_string(), e.to_string()))?;
    let back = Manifest::try_from(p2).map_err(|e| ("manifest:try_from-error".to_string(), e.to_string()))?;
    manifest_diff(&m, &back).map_or(Ok(()), |d| Err((format!("manifest:field-lost:{d}"), format!("{:?} vs {:?}", m.version, back.version))))
}

fn manifest_diff(m: &Manifest, back: &Manifest) -> Option<String> {
    macro_rules! c {
        ($($f:ident),*) => {{ $( if m.$f != back.$f { return Some(stringify!($f).to_string()); } )* }};
    }
    if let Some(d) = schema_eq(&m.schema, &back.schema) {
        return Some(d.to_string());
    }
    c!(version, branch, writer_version, fragments, version_aux_data, timestamp_nanos, tag, reader_feature_flags, writer_feature_flags, max_fragment_id,
       transaction_file, next_row_id, data_storage_format, config, table_metadata, base_paths);
    None
}

fn rt_rowids(rng: &mut Rng) -> Result<(), Fail> {
    let s = g_rowids(rng);
    let back = read_row_ids(&write_row_ids(&s)).map_err(|e| ("rowids:read-error".to_string(), e.to_string()))?;
    if back != s || !back.iter().eq(s.iter()) {
        return Err(("rowids:differs".into(), format!("{s:?}").chars().take(300).collect()));
    }
    Ok(())
}

fn rt_versions(rng: &mut Rng) -> Result<(), Fail> {
    let s = g_versions(rng);
    let bytes = write_dataset_versions(&s);
    let back = read_dataset_versions(&bytes).map_err(|e| ("versions:read-error".to_string(), e.to_string()))?;
    if back != s {
        return Err(("versions:differs".into(), format!("{} runs -> {}", s.runs.len(), back.runs.len())));
    }
    if !back.versions().eq(s.versions()) || back.len() != s.len() {
        return Err(("versions:expanded-sequence-differs".into(), String::new()));
    }
    let meta = RowDatasetVersionMeta::from_sequence(&s).map_err(|e| ("versions:meta-error".to_string(), e.to_string()))?;
    let loaded = meta.load_sequence().map_err(|e| ("versions:meta-load-error".to_string(), e.to_string()))?;
    if loaded != s {
        return Err(("versions:meta-differs".into(), String::new()));
    }
    Ok(())
}

fn rt_memwal(rng: &mut Rng) -> Result<(), Fail> {
    let d = MemWalIndexDetails { mem_wal_list: (0..rng.below(5)).map(|_| g_memwal(rng)).collect() };
    let bytes = pb::MemWalIndexDetails::from(&d).encode_to_vec();
    let p2 = pb::MemWalIndexDetails::decode(&bytes[..]).map_err(|e| ("memwal:pb-decode-error".to_string(), e.to_string()))?;
    let back = MemWalIndexDetails::try_from(p2).map_err(|e| ("memwal:try_from-error".to_string(), e.to_string()))?;
    if back != d {
        return Err(("memwal:differs".into(), format!("{d:?} -> {back:?}").chars().take(500).collect()));
    }
    Ok(())
}

fn rt_refs(rng: &mut Rng) -> Result<(), Fail> {
    let t = TagContents { branch: g_opt(rng, g_nonempty), version: g_u64(rng), manifest_size: rng.below(1 << 50) as usize };
    let js = serde_json::to_string_pretty(&t).map_err(|e| ("tag:serialize-error".to_string(), e.to_string()))?;
    let b: TagContents = serde_json::from_str(&js).map_err(|e| ("tag:deserialize-error".to_string(), e.to_string()))?;
    if b.branch != t.branch || b.version != t.version || b.manifest_size != t.manifest_size {
        return Err(("tag:differs".into(), js));
    }
    let c = BranchContents { parent_branch: g_opt(rng, g_nonempty), parent_version: g_u64(rng), create_at: g_u64(rng), manifest_size: rng.below(1 << 50) as usize };
    let js = serde_json::to_string_pretty(&c).map_err(|e| ("branch:serialize-error".to_string(), e.to_string()))?;
    let b: BranchContents = serde_json::from_str(&js).map_err(|e| ("branch:deserialize-error".to_string(), e.to_string()))?;
    if b.parent_branch != c.parent_branch || b.parent_version != c.parent_version || b.create_at != c.create_at || b.manifest_size != c.manifest_size {
        return Err(("branch:differs".into(), js));
    }
    Ok(())
}

// ------------------------------------------------------------------------------------------
// object-store round trips

async fn rt_manifest_file(rng: &mut Rng, store: &ObjectStore, n: u64) -> Result<(), Fail> {
    let mut m = g_manifest(rng);
    let indices: Option<Vec<IndexMetadata>> = g_opt(rng, |r| (0..r.below(4)).map(|_| g_index(r)).collect());
    let which = rng.below(N_OPS);
    let (tname, op) = g_operation(rng, which);
    let txn = if rng.bool() {
        Some(Transaction { read_version: g_u64(rng), uuid: g_uuid(rng).to_string(), operation: op, tag: None, transaction_properties: None })
    } else {
        None
    };
    let path = Path::from(format!("c32/{n}.manifest"));
    let wire_txn = txn.as_ref().map(lance_table::format::Transaction::from);
    let before = m.clone();
    write_manifest_file_to_path(store, &mut m, indices.clone(), &path, wire_txn)
        .await
        .map_err(|e| ("manifest-file:write-error".to_string(), e.to_string()))?;
    let back = read_manifest(store, &path, None).await.map_err(|e| ("manifest-file:read-error".to_string(), e.to_string()))?;
    if let Some(d) = manifest_diff(&before, &back) {
        return Err((format!("manifest-file:field-lost:{d}"), format!("version {}", before.version)));
    }
    if back.index_section != m.index_section || back.transaction_section != m.transaction_section {
        return Err(("manifest-file:section-offsets-differ".into(), format!("{:?}/{:?} vs {:?}/{:?}", back.index_section, back.transaction_section, m.index_section, m.transaction_section)));
    }
    // index section
    let loc = ManifestLocation { version: back.version, path: path.clone(), size: None, naming_scheme: ManifestNamingScheme::V2, e_tag: None };
    let idx_back = read_manifest_indexes(store, &loc, &back).await.map_err(|e| ("manifest-file:index-read-error".to_string(), e.to_string()))?;
    if idx_back != indices.clone().unwrap_or_default() {
        return Err(("manifest-file:indices-differ".into(), format!("{} written, {} read", indices.map(|i| i.len()).unwrap_or(0), idx_back.len())));
    }
    let _ = tname;
    Ok(())
}

async fn rt_deletion(rng: &mut Rng, store: &ObjectStore) -> Result<&'static str, Fail> {
    let base = Path::from("c32del");
    let n = match rng.below(4) {
        0 => rng.urange(1, 10),
        1 => rng.urange(10, 300),
        _ => rng.urange(1, 3000),
    };
    let mut set = BTreeSet::new();
    while set.len() < n {
        set.insert(match rng.below(5) {
            0 => u32::MAX - rng.below(1000) as u32,
            1 => rng.below(70_000) as u32,
            _ => rng.below(5_000_000) as u32,
        });
    }
    let (kind, dv) = if rng.bool() {
        ("arrow-array", DeletionVector::Set(set.iter().copied().collect()))
    } else {
        ("roaring-bitmap", DeletionVector::Bitmap(set.iter().copied().collect()))
    };
    let frag = g_u64(rng);
    let rv = g_u64(rng) >> 1;
    let df = write_deletion_file(&base, frag, rv, &dv, store)
        .await
        .map_err(|e| (format!("deletion-file:{kind}:write-error"), e.to_string()))?
        .ok_or_else(|| (format!("deletion-file:{kind}:no-file-for-deletions"), String::new()))?;
    let want_type = if kind == "arrow-array" { DeletionFileType::Array } else { DeletionFileType::Bitmap };
    if df.file_type != want_type || df.read_version != rv || df.num_deleted_rows != Some(set.len()) {
        return Err((format!("deletion-file:{kind}:descriptor-wrong"), format!("{df:?}")));
    }
    let back = read_deletion_file(frag, &df, &base, store).await.map_err(|e| (format!("deletion-file:{kind}:read-error"), e.to_string()))?;
    let got: BTreeSet<u32> = back.iter().collect();
    if got != set || back.len() != set.len() {
        return Err((format!("deletion-file:{kind}:rows-differ"), format!("{} written, {} read", set.len(), got.len())));
    }
    // the descriptor itself survives the fragment protobuf
    let mut f = Fragment::new(frag);
    f.deletion_file = Some(df.clone());
    let fb = Fragment::try_from(pb::DataFragment::decode(&pb::DataFragment::from(&f).encode_to_vec()[..]).unwrap()).map_err(|e| ("deletion-file:descriptor-try_from".to_string(), e.to_string()))?;
    if fb.deletion_file != Some(df) {
        return Err((format!("deletion-file:{kind}:descriptor-roundtrip"), String::new()));
    }
    // NoDeletions writes nothing
    if write_deletion_file(&base, frag, rv, &DeletionVector::NoDeletions, store).await.map_err(|e| ("deletion-file:none:write-error".to_string(), e.to_string()))?.is_some() {
        return Err(("deletion-file:none:file-written".into(), String::new()));
    }
    Ok(kind)
}

thread_local! {
    static RT: tokio::runtime::Runtime = tokio::runtime::Builder::new_current_thread().enable_all().build().unwrap();
    static STORE: ObjectStore = ObjectStore::memory();
}

// ------------------------------------------------------------------------------------------

const KINDS: u64 = 10;

fn one_case(report: &Report, sink: &Sink, i: u64) {
    let mut rng = Rng::for_case(report.seed, i);
    let kind = i % KINDS;
    let (label, res): (String, Result<Result<(), Fail>, String>) = match kind {
        0 => ("fragment".into(), guarded(|| rt_fragment(&mut rng))),
        1 => ("index".into(), guarded(|| rt_index(&mut rng))),
        2 | 3 => {
            let which = i / KINDS * 2 + (kind - 2);
            let r = guarded(|| rt_transaction(&mut rng, which));
            match r {
                Ok(Ok((n, fails))) => {
                    for (sig, what) in fails {
                        sink.violation_lazy(&sig, &what, || json!({"seed": report.seed as i64, "case": i, "detail": what, "replay": format!("e_sets C32 --seed {} --case {i}", report.seed as i64)}));
                    }
                    (format!("transaction:{n}"), Ok(Ok(())))
                }
                Ok(Err(e)) => ("transaction".into(), Ok(Err(e))),
                Err(p) => (format!("transaction:{}", g_operation(&mut Rng::new(0), which).0), Err(p)),
            }
        }
        4 => ("manifest".into(), guarded(|| rt_manifest_pb(&mut rng))),
        5 => ("rowids".into(), guarded(|| rt_rowids(&mut rng))),
        6 => ("versions".into(), guarded(|| rt_versions(&mut rng))),
        7 => ("memwal+refs".into(), guarded(|| rt_memwal(&mut rng).and_then(|_| rt_refs(&mut rng)))),
        8 => ("manifest-file".into(), guarded(|| RT.with(|rt| STORE.with(|st| rt.block_on(rt_manifest_file(&mut rng, st, i)))))),
        _ => {
            let r = guarded(|| RT.with(|rt| STORE.with(|st| rt.block_on(rt_deletion(&mut rng, st)))));
            match r {
                Ok(Ok(k)) => (format!("deletion-file:{k}"), Ok(Ok(()))),
                Ok(Err(e)) => ("deletion-file".into(), Ok(Err(e))),
                Err(p) => ("deletion-file".into(), Err(p)),
            }
        }
    };
    report.count(&format!("roundtrips:{}", label.split(':').next().unwrap()), 1);
    report.case(Some(hash_of(&(label.clone(), i / (KINDS * N_OPS), rng.next_u64() % 64))));
    if let Some(n) = label.strip_prefix("transaction:") {
        report.count(&format!("transaction_variant:{n}"), 1);
    }
    if i % 97 == 8 && report.want_sample() {
        report.sample(json!({"case": i, "kind": label, "outcome": match &res { Ok(Ok(())) => "round trip equal", Ok(Err(_)) => "differs", Err(_) => "panic" }}));
    }
    let wit = |d: &str| json!({"seed": report.seed as i64, "case": i, "kind": label, "detail": d, "replay": format!("e_sets C32 --seed {} --case {i}", report.seed as i64)});
    match res {
        Ok(Ok(())) => {}
        Ok(Err((sig, what))) => sink.violation_lazy(&sig, &what, || wit(&what)),
        Err(p) => sink.violation_lazy(&format!("{label}:panic"), &p, || wit(&p)),
    }
}

fn selftest(args: &Args) -> i32 {
    quiet_panics();
    let mut a = args.clone();
    a.prop = "C32-selftest".into();
    std::env::set_var("VERIF_EVIDENCE_OUT", "/dev/null");
    let report = Report::new(&a, "exploration", "selftest", (60, 60));
    let sink = Sink::collecting();
    CORRUPT_DECODED.store(true, Ordering::Relaxed);
    for i in 0..400 {
        one_case(&report, &sink, i);
    }
    CORRUPT_DECODED.store(false, Ordering::Relaxed);
    let caught = sink.has_prefix("fragment:field-lost:");
    println!("SELFTEST corrupted-decoded-fragment caught={caught}");
    if caught {
        println!("SELFTEST C32 ok");
        0
    } else {
        println!("SELFTEST C32 FAILED");
        2
    }
}

pub fn run(args: &Args) -> i32 {
    if is_selftest(args) {
        return selftest(args);
    }
    quiet_panics();
    arm_watchdog(args.tier.pick(300, 1500));
    let rule = "Seeded random well-formed values, ten kinds in rotation: Fragment (data files, deletion file descriptor, inline/external row id and version metadata), IndexMetadata, Transaction for each of the 15 Operation variants (two per rotation), Manifest through pb, RowIdSequence bytes, RowDatasetVersionSequence bytes + meta, MemWAL index details + tag/branch JSON, Manifest written with write_manifest (with index and transaction sections) and read back from an in-memory object store, deletion vectors written as Arrow file (Set) and Roaring bitmap and read back. Values exercise optional fields, empty collections, ids at u32/u64 limits, nanosecond timestamps, detached versions, up to 60 version runs. Oracle: decode(encode(x)) compared field by field (vector order included; Schema metadata included). Distinct = (kind or operation variant, sub-stream).";
    let report = Report::new(args, "exploration", rule, (40, 480)).with_min_nontrivial(200);
    let sink = Sink::to_report(&report);
    if let Some(c) = args.extra.get("case").and_then(|c| c.parse::<u64>().ok()) {
        one_case(&report, &sink, c);
        sink.flush();
        return report.finish();
    }
    let max_cases = args.tier.pick(400_000u64, 20_000_000);
    fan_out(n_threads(), 0, max_cases, &|| report.time_left(), &|i| one_case(&report, &sink, i));
    for n in ["Append", "Delete", "Overwrite", "CreateIndex", "Rewrite", "DataReplacement", "Merge", "Restore", "ReserveFragments", "Update", "Project", "UpdateConfig", "UpdateMemWalState", "Clone", "UpdateBases"] {
        if report.counter(&format!("transaction_variant:{n}")) == 0 && report.n_violations() == 0 && report.n_evaluations() > 1000 {
            report.set(&format!("note_variant_without_clean_roundtrip:{n}"), json!(true));
        }
    }
    report.assume("values are canonical where the format has no distinct encoding: Some(\"\")/Some(empty) are not generated for tag, transaction_file, initial_bases; index created_at has millisecond precision; timestamp 0 means unset");
    sink.flush();
    report.finish()
}

#[allow(dead_code)]
fn _unused(_: Value) {}
