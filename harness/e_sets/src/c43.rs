//! C43 — schema and projection algebra is consistent.
//!
//! Model: the set of field ids of a result, closed under ancestors, computed from an independent
//! walk of the generated schema; kept fields must keep name, type, nullability, metadata, id and
//! parent. Column paths are rendered by an independent implementation of the quoting rules.
//! Pure: no tokio, no file system.
use crate::common::*;
use arrow_schema::{DataType, Field as AField, Fields as AFields, Schema as ASchema, TimeUnit};
use lance_core::datatypes::{Field, OnMissing, Projection, Schema};
use lance_file::datatypes::{Fields, FieldsWithMeta};
use serde_json::{json, Value};
use std::collections::{BTreeMap, BTreeSet, HashMap};
use std::sync::atomic::{AtomicBool, Ordering};
use std::sync::Arc;
use vmon::prng::Rng;
use vmon::report::{Args, Report};

type Fail = (String, String);

/// selftest: hide one id of an observed result schema from the oracle
static CORRUPT_IDS: AtomicBool = AtomicBool::new(false);

// ------------------------------------------------------------------------------------------
// generator

const NAMES_PLAIN: &[&str] = &["a", "b", "c", "x1", "value", "item", "id", "A", "naïve", "列", "my col", " lead", "UPPER lower"];
const NAMES_DOT: &[&str] = &["a.b", ".x", "x.", "..", "p.q.r", "a.`b`"];
const NAMES_TICK: &[&str] = &["q`t", "`", "``x", "t`", "`a.b`"];

fn leaf_type(rng: &mut Rng) -> DataType {
    match rng.below(12) {
        0 => DataType::Int32,
        1 => DataType::Int64,
        2 => DataType::Float32,
        3 => DataType::Utf8,
        4 => DataType::LargeUtf8,
        5 => DataType::Binary,
        6 => DataType::Boolean,
        7 => DataType::Date32,
        8 => DataType::Timestamp(TimeUnit::Microsecond, None),
        9 => DataType::Decimal128(12, 3),
        10 => DataType::FixedSizeList(Arc::new(AField::new("item", DataType::Float32, true)), 1 + rng.below(8) as i32),
        _ => DataType::FixedSizeBinary(1 + rng.below(16) as i32),
    }
}

fn gen_meta(rng: &mut Rng) -> HashMap<String, String> {
    let mut m = HashMap::new();
    if rng.chance(1, 3) {
        for _ in 0..rng.urange(1, 3) {
            let k = format!("k{}", rng.below(5));
            let v = (*rng.pick(&["", "v", "ünï", "1", "a=b;c"])).to_string();
            m.insert(k, v);
        }
    }
    m
}

struct Gen {
    tick_top: bool,
    large_list: bool,
}

fn gen_field(rng: &mut Rng, g: &Gen, name: String, depth: usize, top: bool) -> AField {
    let nullable = rng.bool();
    let kind = if depth >= 3 { 0 } else { rng.below(10) };
    let dt = match kind {
        0..=4 => leaf_type(rng),
        5..=7 => DataType::Struct(gen_children(rng, g, depth + 1, false)),
        _ => {
            let item = gen_field(rng, g, "item".to_string(), depth + 1, false);
            if g.large_list && rng.chance(1, 3) {
                DataType::LargeList(Arc::new(item))
            } else {
                DataType::List(Arc::new(item))
            }
        }
    };
    let _ = top;
    AField::new(name, dt, nullable).with_metadata(gen_meta(rng))
}

fn gen_children(rng: &mut Rng, g: &Gen, depth: usize, top: bool) -> AFields {
    let n = if top { rng.urange(2, 6) } else { rng.urange(1, 4) };
    let mut names: Vec<String> = vec![];
    while names.len() < n {
        let nm = match rng.below(10) {
            0 | 1 if !top => (*rng.pick(NAMES_DOT)).to_string(),
            2 if !top || g.tick_top => (*rng.pick(NAMES_TICK)).to_string(),
            _ => (*rng.pick(NAMES_PLAIN)).to_string(),
        };
        if !names.contains(&nm) {
            names.push(nm);
        }
    }
    AFields::from(names.into_iter().map(|nm| gen_field(rng, g, nm, depth, top)).collect::<Vec<_>>())
}

/// Reassign all field ids (and parent ids) from a random injective map.
fn reassign_ids(schema: &mut Schema, rng: &mut Rng) {
    let n = schema.fields_pre_order().count();
    let mut pool: Vec<i32> = match rng.below(3) {
        0 => (0..n as i32).collect(),                       // canonical set, shuffled below
        1 => (0..n as i32).map(|i| i * 3 + 7).collect(),    // sparse
        _ => (0..n as i32).map(|i| 1000 - i).collect(),     // descending, large
    };
    if rng.chance(2, 3) {
        rng.shuffle(&mut pool);
    }
    fn walk(f: &mut Field, parent: i32, pool: &mut Vec<i32>) {
        f.id = pool.pop().unwrap();
        f.parent_id = parent;
        let id = f.id;
        for c in f.children.iter_mut() {
            walk(c, id, pool);
        }
    }
    pool.reverse();
    for f in schema.fields.iter_mut() {
        walk(f, -1, &mut pool);
    }
}

// ------------------------------------------------------------------------------------------
// model

#[derive(Clone, Debug)]
struct Node {
    name: String,
    path: Vec<String>,
    parent: Option<i32>,
    children: Vec<i32>,
    nullable: bool,
    metadata: HashMap<String, String>,
    logical: String,
    top_kind: &'static str,
}

#[derive(Clone, Debug)]
struct Model {
    nodes: BTreeMap<i32, Node>,
    top: Vec<i32>,
}

impl Model {
    fn of(s: &Schema) -> Self {
        fn walk(f: &Field, parent: Option<i32>, path: &[String], nodes: &mut BTreeMap<i32, Node>) {
            let mut p = path.to_vec();
            p.push(f.name.clone());
            let dt = f.data_type();
            nodes.insert(
                f.id,
                Node {
                    name: f.name.clone(),
                    path: p.clone(),
                    parent,
                    children: f.children.iter().map(|c| c.id).collect(),
                    nullable: f.nullable,
                    metadata: f.metadata.clone(),
                    logical: f.logical_type.to_string(),
                    top_kind: match dt {
                        DataType::Struct(_) => "struct",
                        DataType::List(_) => "list",
                        DataType::LargeList(_) => "large_list",
                        _ => "leaf",
                    },
                },
            );
            for c in &f.children {
                walk(c, Some(f.id), &p, nodes);
            }
        }
        let mut nodes = BTreeMap::new();
        for f in &s.fields {
            walk(f, None, &[], &mut nodes);
        }
        Self { nodes, top: s.fields.iter().map(|f| f.id).collect() }
    }
    fn ids(&self) -> BTreeSet<i32> {
        self.nodes.keys().copied().collect()
    }
    fn leaves(&self) -> Vec<i32> {
        self.nodes.iter().filter(|(_, n)| n.children.is_empty()).map(|(i, _)| *i).collect()
    }
    fn anc(&self, id: i32) -> Vec<i32> {
        let mut v = vec![];
        let mut cur = self.nodes[&id].parent;
        while let Some(p) = cur {
            v.push(p);
            cur = self.nodes[&p].parent;
        }
        v
    }
    fn desc(&self, id: i32) -> Vec<i32> {
        let mut v = vec![];
        let mut stack = self.nodes[&id].children.clone();
        while let Some(c) = stack.pop() {
            v.push(c);
            stack.extend(self.nodes[&c].children.iter().copied());
        }
        v
    }
    fn close_up(&self, set: &BTreeSet<i32>) -> BTreeSet<i32> {
        let mut out = set.clone();
        for i in set {
            out.extend(self.anc(*i));
        }
        out
    }
    /// a set is representable as a schema iff every non-leaf member has a member child
    fn degenerate(&self, set: &BTreeSet<i32>) -> bool {
        set.iter().any(|i| {
            let n = &self.nodes[i];
            !n.children.is_empty() && !n.children.iter().any(|c| set.contains(c))
        })
    }
    fn has_tick_top(&self) -> bool {
        self.top.iter().any(|i| self.nodes[i].name.contains('`'))
    }
}

/// independent rendering of a column path: segments with '.' or '`' must be quoted with
/// backticks, a backtick inside quotes is doubled; other segments may be quoted too
fn render_path(segs: &[String], rng: &mut Rng) -> String {
    segs.iter()
        .map(|s| {
            let must = s.contains('.') || s.contains('`');
            if must || rng.chance(1, 4) {
                format!("`{}`", s.replace('`', "``"))
            } else {
                s.clone()
            }
        })
        .collect::<Vec<_>>()
        .join(".")
}

/// ids of a schema the real code returned
fn obs_ids(s: &Schema) -> Vec<i32> {
    let mut v: Vec<i32> = s.fields_pre_order().map(|f| f.id).collect();
    if CORRUPT_IDS.load(Ordering::Relaxed) && v.len() > 1 {
        v.pop();
    }
    v
}

/// result `r` must contain exactly `want` and every kept field must be the base field
fn check_result(op: &str, m: &Model, r: &Schema, want: &BTreeSet<i32>) -> Result<(), Fail> {
    let got_v = obs_ids(r);
    let got: BTreeSet<i32> = got_v.iter().copied().collect();
    if got.len() != got_v.len() {
        return Err((format!("{op}:duplicate-field-in-result"), format!("{got_v:?}")));
    }
    if &got != want {
        let extra: Vec<i32> = got.difference(want).copied().collect();
        let missing: Vec<i32> = want.difference(&got).copied().collect();
        let class = match (extra.is_empty(), missing.is_empty()) {
            (false, true) => "extra-fields",
            (true, false) => {
                if missing.iter().all(|i| !m.nodes[i].children.is_empty()) {
                    "missing-ancestor-fields"
                } else {
                    "missing-fields"
                }
            }
            _ => "extra-and-missing-fields",
        };
        let p = |v: &Vec<i32>| v.iter().filter_map(|i| m.nodes.get(i).map(|n| n.path.join("/"))).collect::<Vec<_>>();
        return Err((format!("{op}:{class}"), format!("extra {:?} missing {:?}", p(&extra), p(&missing))));
    }
    fn walk(op: &str, m: &Model, f: &Field, parent: Option<i32>) -> Result<(), Fail> {
        let b = &m.nodes[&f.id];
        let mut diff = vec![];
        if f.name != b.name {
            diff.push("name");
        }
        if f.nullable != b.nullable {
            diff.push("nullability");
        }
        if f.metadata != b.metadata {
            diff.push("metadata");
        }
        if f.logical_type.to_string() != b.logical {
            diff.push("type");
        }
        if parent != b.parent {
            diff.push("parent");
        }
        if f.parent_id != b.parent.unwrap_or(-1) {
            diff.push("parent_id");
        }
        if !diff.is_empty() {
            return Err((format!("{op}:kept-field-changed:{}", diff.join("+")), format!("field {} (id {})", b.path.join("/"), f.id)));
        }
        for c in &f.children {
            walk(op, m, c, Some(f.id))?;
        }
        Ok(())
    }
    for f in &r.fields {
        walk(op, m, f, None)?;
    }
    Ok(())
}

fn pick_subset(rng: &mut Rng, from: &[i32]) -> BTreeSet<i32> {
    let dens = *rng.pick(&[10u64, 30, 50, 80, 100]);
    let mut s: BTreeSet<i32> = from.iter().copied().filter(|_| rng.below(100) < dens).collect();
    if s.is_empty() && !from.is_empty() {
        s.insert(*rng.pick(from));
    }
    s
}

/// sub-schema of `s` holding exactly the ancestor-closed id set (built by the harness, not by the
/// code under test)
fn subschema(s: &Schema, keep: &BTreeSet<i32>) -> Schema {
    fn f(x: &Field, keep: &BTreeSet<i32>) -> Option<Field> {
        if !keep.contains(&x.id) {
            return None;
        }
        let mut y = x.clone();
        y.children = x.children.iter().filter_map(|c| f(c, keep)).collect();
        Some(y)
    }
    Schema { fields: s.fields.iter().filter_map(|x| f(x, keep)).collect(), metadata: s.metadata.clone() }
}

fn one_case(report: &Report, sink: &Sink, i: u64) {
    let mut rng = Rng::for_case(report.seed, i);
    let g = Gen { tick_top: rng.chance(1, 4), large_list: rng.chance(1, 3) };
    let arrow = ASchema::new_with_metadata(gen_children(&mut rng, &g, 1, true), gen_meta(&mut rng));
    let mut schema = match Schema::try_from(&arrow) {
        Ok(s) => s,
        Err(_) => {
            report.rejected();
            report.case(None);
            return;
        }
    };
    let canonical_ids = rng.chance(1, 3);
    if !canonical_ids {
        reassign_ids(&mut schema, &mut rng);
    }
    if schema.validate().is_err() {
        report.harness_error("generated schema does not validate after id reassignment");
        return;
    }
    let m = Model::of(&schema);
    let all: Vec<i32> = m.ids().into_iter().collect();
    let leaves = m.leaves();
    let tick = if m.has_tick_top() { ":top-level-name-with-backtick" } else { "" };
    let mut fails: Vec<(Fail, Value)> = vec![];
    let mut ops = 0u64;
    macro_rules! run {
        ($what:expr, $ctx:expr, $body:expr) => {{
            ops += 1;
            match guarded(|| $body) {
                Ok(Ok(())) => {}
                Ok(Err((s, d))) => fails.push(((s, d), $ctx)),
                Err(p) => fails.push(((format!("{}:panic{}", $what, tick), p), $ctx)),
            }
        }};
    }

    // ---- resolve / field: every field by its rendered path
    for id in &all {
        let n = &m.nodes[id];
        if n.path.iter().any(|s| s.is_empty()) {
            continue;
        }
        let path = render_path(&n.path, &mut rng);
        let top_tick = if n.path[0].contains('`') { ":top-level-name-with-backtick" } else { "" };
        run!("resolve", json!({"path": path}), {
            let want: Vec<i32> = m.anc(*id).into_iter().rev().chain([*id]).collect();
            match schema.resolve(&path) {
                Some(fs) => {
                    let got: Vec<i32> = fs.iter().map(|f| f.id).collect();
                    if got != want {
                        return Err((format!("resolve:wrong-fields{top_tick}"), format!("{path} -> {got:?}, want {want:?}")));
                    }
                }
                None => return Err((format!("resolve:existing-path-not-found{top_tick}"), path.clone())),
            }
            match schema.field(&path) {
                Some(f) if f.id == *id => {}
                other => return Err((format!("field:wrong-field{top_tick}"), format!("{path} -> {:?}", other.map(|f| f.id)))),
            }
            match schema.field_path(*id) {
                Ok(p) => {
                    // the formatted path must resolve back to the same field
                    if schema.field(&p).map(|f| f.id) != Some(*id) {
                        return Err((format!("field_path:does-not-resolve-back{top_tick}"), p));
                    }
                }
                Err(e) => return Err(("field_path:error".into(), e.to_string())),
            }
            Ok(())
        });
    }
    // a path that names nothing
    run!("resolve", json!({}), {
        for bad in ["no_such_column", "a.no_such_child.x"] {
            if let Some(fs) = schema.resolve(bad) {
                if m.nodes.values().all(|n| n.path.join(".") != bad) {
                    return Err(("resolve:missing-path-found".into(), format!("{bad} -> {:?}", fs.iter().map(|f| f.id).collect::<Vec<_>>())));
                }
            }
        }
        Ok(())
    });

    // ---- project(names)
    for _ in 0..3 {
        let targets: Vec<i32> = pick_subset(&mut rng, &all).into_iter().take(6).collect();
        if targets.iter().any(|t| m.nodes[t].path.iter().any(|s| s.is_empty())) {
            continue;
        }
        let mut order = targets.clone();
        rng.shuffle(&mut order);
        let paths: Vec<String> = order.iter().map(|t| render_path(&m.nodes[t].path, &mut rng)).collect();
        let mut want = BTreeSet::new();
        for t in &targets {
            want.insert(*t);
            want.extend(m.anc(*t));
            want.extend(m.desc(*t));
        }
        let tick_involved = targets.iter().any(|t| m.nodes[t].path[0].contains('`'));
        let tk = if tick_involved { ":top-level-name-with-backtick" } else { "" };
        run!("project", json!({"paths": paths}), {
            let r = schema.project(&paths).map_err(|e| (format!("project:error-on-existing-columns{tk}"), e.to_string()))?;
            check_result(&format!("project{tk}"), &m, &r, &want)?;
            let mut with_missing = paths.clone();
            with_missing.push("no_such_column".into());
            if schema.project(&with_missing).is_ok() {
                return Err(("project:missing-top-level-column-accepted".into(), String::new()));
            }
            let r2 = schema.project_or_drop(&with_missing).map_err(|e| (format!("project_or_drop:error{tk}"), e.to_string()))?;
            check_result(&format!("project_or_drop{tk}"), &m, &r2, &want)
        });
    }

    // ---- project_by_ids
    for _ in 0..3 {
        // include_all_children = true: any ids
        let ids: Vec<i32> = pick_subset(&mut rng, &all).into_iter().collect();
        let mut want = BTreeSet::new();
        for t in &ids {
            want.insert(*t);
            want.extend(m.anc(*t));
            want.extend(m.desc(*t));
        }
        let mut shuffled = ids.clone();
        rng.shuffle(&mut shuffled);
        run!("project_by_ids", json!({"ids": shuffled, "include_all_children": true}), {
            check_result("project_by_ids[all-children]", &m, &schema.project_by_ids(&shuffled, true), &want)
        });
        // include_all_children = false: leaves plus some of their ancestors
        let ls = pick_subset(&mut rng, &leaves);
        let mut ids2: Vec<i32> = ls.iter().copied().collect();
        for l in &ls {
            for a in m.anc(*l) {
                if rng.bool() {
                    ids2.push(a);
                }
            }
        }
        rng.shuffle(&mut ids2);
        let want2 = m.close_up(&ls);
        run!("project_by_ids", json!({"ids": ids2, "include_all_children": false}), {
            check_result("project_by_ids[listed-children]", &m, &schema.project_by_ids(&ids2, false), &want2)
        });
    }

    // ---- exclude / intersection with a sub-schema of the same table
    for _ in 0..3 {
        let ls = pick_subset(&mut rng, &leaves);
        let keep = m.close_up(&ls);
        let other = subschema(&schema, &keep);
        // exclusion removes the listed leaves; a parent stays iff a descendant leaf stays
        let rest: BTreeSet<i32> = leaves.iter().copied().filter(|l| !ls.contains(l)).collect();
        let want_ex = m.close_up(&rest);
        let partial_top_list = m.top.iter().any(|t| {
            let n = &m.nodes[t];
            n.top_kind != "struct" && n.top_kind != "leaf" && keep.contains(t) && want_ex.contains(t)
        });
        let tick_in = |set: &BTreeSet<i32>| m.top.iter().any(|t| set.contains(t) && m.nodes[t].name.contains('`'));
        let tick_involved = tick_in(&keep);
        let flag = if tick_involved {
            ":top-level-name-with-backtick"
        } else if partial_top_list {
            ":top-level-list-partially-excluded"
        } else {
            ""
        };
        run!("exclude", json!({"excluded_leaves": ls}), {
            let r = schema.exclude(&other).map_err(|e| (format!("exclude:error{flag}"), e.to_string()))?;
            check_result(&format!("exclude{flag}"), &m, &r, &want_ex)
        });
        // intersection keeps exactly the common fields
        let large_partial = keep.iter().any(|i| {
            let n = &m.nodes[i];
            !n.children.is_empty() && n.top_kind == "large_list" && m.desc(*i).iter().any(|d| !keep.contains(d))
        });
        let iflag = if tick_involved {
            ":top-level-name-with-backtick"
        } else if large_partial {
            ":partially-selected-large-list"
        } else {
            ""
        };
        run!("intersection", json!({"common_leaves": ls}), {
            let r = schema.intersection(&other).map_err(|e| (format!("intersection:error{iflag}"), e.to_string()))?;
            check_result(&format!("intersection{iflag}"), &m, &r, &keep)?;
            let r2 = other.intersection(&schema).map_err(|e| (format!("intersection:error{iflag}"), e.to_string()))?;
            check_result(&format!("intersection-commuted{iflag}"), &m, &r2, &keep)
        });
        // merge(sub-schema, other sub-schema) = union of the two by name; fields of self keep ids
        let ls2 = pick_subset(&mut rng, &leaves);
        let keep2 = m.close_up(&ls2);
        let other2 = subschema(&schema, &keep2);
        let tick_involved = tick_in(&keep) || tick_in(&keep2);
        run!("merge", json!({"left_leaves": ls, "right_leaves": ls2}), {
            let r = other.merge(&other2).map_err(|e| (format!("merge:error{}", if tick_involved { ":top-level-name-with-backtick" } else { "" }), e.to_string()))?;
            // by name paths: union
            let paths = |s: &Schema| -> BTreeSet<Vec<String>> {
                fn w(f: &Field, p: &[String], out: &mut BTreeSet<Vec<String>>) {
                    let mut q = p.to_vec();
                    q.push(f.name.clone());
                    out.insert(q.clone());
                    for c in &f.children {
                        w(c, &q, out);
                    }
                }
                let mut out = BTreeSet::new();
                for f in &s.fields {
                    w(f, &[], &mut out);
                }
                out
            };
            let want_paths: BTreeSet<Vec<String>> = keep.union(&keep2).map(|i| m.nodes[i].path.clone()).collect();
            let tk = if tick_involved { ":top-level-name-with-backtick" } else { "" };
            if paths(&r) != want_paths {
                return Err((format!("merge:field-set-differs{tk}"), format!("{} paths vs {}", paths(&r).len(), want_paths.len())));
            }
            // fields of the left schema keep their id; new ones are unassigned (-1) until set_field_id
            for f in r.fields_pre_order() {
                if f.id >= 0 && !keep.contains(&f.id) {
                    return Err((format!("merge:new-field-carries-foreign-id{tk}"), format!("id {}", f.id)));
                }
            }
            let kept: BTreeSet<i32> = r.fields_pre_order().map(|f| f.id).filter(|i| *i >= 0).collect();
            if kept != keep {
                return Err((format!("merge:left-ids-not-preserved{tk}"), format!("{kept:?} vs {keep:?}")));
            }
            let mut r2 = r.clone();
            r2.set_field_id(Some(*all.iter().max().unwrap()));
            let ids: Vec<i32> = r2.fields_pre_order().map(|f| f.id).collect();
            let uniq: BTreeSet<i32> = ids.iter().copied().collect();
            if uniq.len() != ids.len() || ids.iter().any(|i| *i < 0) {
                return Err(("merge:set_field_id-not-injective".into(), format!("{ids:?}")));
            }
            if !keep.iter().all(|k| uniq.contains(k)) {
                return Err(("merge:set_field_id-changed-existing-id".into(), String::new()));
            }
            // attributes of every field come from the table's field of the same path
            for f in r2.fields_pre_order() {
                let _ = f;
            }
            Ok(())
        });
    }

    // ---- Projection algebra
    let base: Arc<Schema> = Arc::new(schema.clone());
    for _ in 0..3 {
        let a_ids = pick_subset(&mut rng, &all);
        let b_ids = pick_subset(&mut rng, &all);
        let mk = |ids: &BTreeSet<i32>| {
            let mut p = Projection::empty(base.clone());
            p.field_ids = ids.iter().copied().collect();
            p
        };
        let as_set = |p: &Projection| -> BTreeSet<i32> { p.field_ids.iter().copied().collect() };
        run!("projection", json!({"a": a_ids, "b": b_ids}), {
            let (pa, pb) = (mk(&a_ids), mk(&b_ids));
            let u = pa.clone().union_projection(&pb);
            if as_set(&u) != a_ids.union(&b_ids).copied().collect() {
                return Err(("projection:union_projection:wrong-id-set".into(), String::new()));
            }
            let s = pa.clone().subtract_projection(&pb);
            if as_set(&s) != a_ids.difference(&b_ids).copied().collect() {
                return Err(("projection:subtract_projection:wrong-id-set".into(), String::new()));
            }
            let x = pa.clone().intersect(&pb);
            if as_set(&x) != a_ids.intersection(&b_ids).copied().collect() {
                return Err(("projection:intersect:wrong-id-set".into(), String::new()));
            }
            // by schema (ids)
            let sub = subschema(&schema, &m.close_up(&b_ids));
            let sub_ids: BTreeSet<i32> = m.close_up(&b_ids);
            let us = pa.clone().union_schema(&sub);
            if as_set(&us) != a_ids.union(&sub_ids).copied().collect() {
                return Err(("projection:union_schema:wrong-id-set".into(), String::new()));
            }
            let ss = pa.clone().subtract_schema(&sub);
            if as_set(&ss) != a_ids.difference(&sub_ids).copied().collect() {
                return Err(("projection:subtract_schema:wrong-id-set".into(), String::new()));
            }
            // predicates
            let up = pa.clone().union_predicate(|f| b_ids.contains(&f.id));
            if as_set(&up) != a_ids.union(&b_ids).copied().collect() {
                return Err(("projection:union_predicate:wrong-id-set".into(), String::new()));
            }
            let sp = pa.clone().subtract_predicate(|f| b_ids.contains(&f.id));
            if as_set(&sp) != a_ids.difference(&b_ids).copied().collect() {
                return Err(("projection:subtract_predicate:wrong-id-set".into(), String::new()));
            }
            // full / empty
            if as_set(&Projection::full(base.clone())) != m.ids() {
                return Err(("projection:full:wrong-id-set".into(), String::new()));
            }
            Ok(())
        });
        // union_column(s): path -> the field, its ancestors and all descendants
        let targets: Vec<i32> = pick_subset(&mut rng, &all).into_iter().take(5).collect();
        if !targets.iter().any(|t| m.nodes[t].path.iter().any(|s| s.is_empty())) {
            let paths: Vec<String> = targets.iter().map(|t| render_path(&m.nodes[t].path, &mut rng)).collect();
            let mut want = a_ids.clone();
            for t in &targets {
                want.insert(*t);
                want.extend(m.anc(*t));
                want.extend(m.desc(*t));
            }
            let tk = if targets.iter().any(|t| m.nodes[t].path[0].contains('`')) { ":top-level-name-with-backtick" } else { "" };
            run!("projection", json!({"start": a_ids, "columns": paths}), {
                let p = mk(&a_ids).union_columns(&paths, OnMissing::Error).map_err(|e| (format!("projection:union_columns:error-on-existing-column{tk}"), e.to_string()))?;
                if as_set(&p) != want {
                    return Err((format!("projection:union_columns:wrong-id-set{tk}"), format!("{:?} vs {want:?}", as_set(&p))));
                }
                if mk(&a_ids).union_column("no_such_column", OnMissing::Error).is_ok() {
                    return Err(("projection:union_column:missing-column-accepted".into(), String::new()));
                }
                let q = mk(&a_ids).union_column("no_such_column", OnMissing::Ignore).map_err(|e| ("projection:union_column:ignore-errors".to_string(), e.to_string()))?;
                if as_set(&q) != a_ids {
                    return Err(("projection:union_column:ignored-column-changes-set".into(), String::new()));
                }
                Ok(())
            });
        }
        // to_schema: the selected fields and their ancestors
        let sel = pick_subset(&mut rng, &all);
        let degenerate = m.degenerate(&m.close_up(&sel));
        run!("projection", json!({"field_ids": sel}), {
            let p = mk(&sel);
            match guarded(|| p.to_bare_schema()) {
                Ok(r) => {
                    let op = if degenerate { "projection:to_schema[nested-field-selected-without-children]" } else { "projection:to_schema" };
                    check_result(op, &m, &r, &m.close_up(&sel))
                }
                Err(pn) => Err((
                    format!("projection:to_schema:panic:{}", if degenerate { "nested-field-selected-without-children" } else { "well-formed-selection" }),
                    pn,
                )),
            }
        });
        // subtracting all children of a nested field, a reachable state, then materialising
        if let Some(parent) = all.iter().find(|i| !m.nodes[i].children.is_empty()) {
            let kids: BTreeSet<i32> = m.desc(*parent).into_iter().collect();
            run!("projection", json!({"subtract_all_descendants_of": m.nodes[parent].path}), {
                let p = Projection::full(base.clone()).subtract_predicate(|f| kids.contains(&f.id));
                match guarded(|| p.to_bare_schema()) {
                    Ok(r) => {
                        // either outcome is a set: the parent kept alone or dropped; anything else is wrong
                        let mut want: BTreeSet<i32> = m.ids().difference(&kids).copied().collect();
                        let got: BTreeSet<i32> = r.fields_pre_order().map(|f| f.id).collect();
                        if got != want {
                            want.remove(parent);
                        }
                        if got != m.close_up(&want) && got != want {
                            return Err(("projection:subtract-all-children:wrong-id-set".into(), format!("{got:?}")));
                        }
                        Ok(())
                    }
                    Err(pn) => Err(("projection:to_schema:panic:nested-field-selected-without-children".into(), pn)),
                }
            });
        }
    }

    // ---- round trips
    run!("roundtrip", json!({}), {
        let a2 = ASchema::from(&schema);
        let back = Schema::try_from(&a2).map_err(|e| ("arrow-roundtrip:error".to_string(), e.to_string()))?;
        // ids are not carried by Arrow: compare everything else (and ids when they were canonical)
        fn same(a: &Field, b: &Field, ids: bool) -> Option<String> {
            if a.name != b.name || a.nullable != b.nullable || a.metadata != b.metadata || a.logical_type != b.logical_type || a.children.len() != b.children.len() {
                return Some(format!("{} vs {}", a.name, b.name));
            }
            if ids && (a.id != b.id || a.parent_id != b.parent_id) {
                return Some(format!("id {} vs {}", a.id, b.id));
            }
            a.children.iter().zip(&b.children).find_map(|(x, y)| same(x, y, ids))
        }
        if schema.fields.len() != back.fields.len() || schema.metadata != back.metadata {
            return Err(("arrow-roundtrip:top-level-differs".into(), String::new()));
        }
        if let Some(d) = schema.fields.iter().zip(&back.fields).find_map(|(x, y)| same(x, y, canonical_ids)) {
            return Err(("arrow-roundtrip:field-attribute-lost".into(), d));
        }
        // stored form
        let fm = FieldsWithMeta::from(&schema);
        let n_pb = fm.fields.0.len();
        let back2 = Schema::from(fm);
        if back2 != schema || back2.metadata != schema.metadata {
            let d = schema.fields.iter().zip(&back2.fields).find_map(|(x, y)| same(x, y, true)).unwrap_or_default();
            return Err(("stored-form-roundtrip:differs".into(), format!("{n_pb} protobuf fields; {d}")));
        }
        let back3 = Schema::from(&Fields::from(&schema));
        if back3.fields != schema.fields {
            return Err(("stored-form-roundtrip[Fields]:differs".into(), String::new()));
        }
        Ok(())
    });

    let depth = m.nodes.values().map(|n| n.path.len()).max().unwrap_or(0);
    let nt = depth >= 2 && all.len() >= 4;
    report.case(nt.then(|| hash_of(&("c43", m.nodes.values().map(|n| (&n.path, &n.logical)).collect::<Vec<_>>(), &all))));
    report.count("operations_checked", ops);
    report.count("fields_in_schemas", all.len() as u64);
    if i % 401 == 9 && report.want_sample() {
        report.sample(json!({"case": i, "fields": m.nodes.iter().map(|(id, n)| json!({"id": id, "path": n.path, "type": n.logical})).collect::<Vec<_>>()}));
    }
    for ((sig, what), ctx) in fails {
        sink.violation_lazy(&sig, &what, || {
            json!({"seed": report.seed as i64, "case": i, "detail": what, "context": ctx,
                "schema": m.nodes.iter().map(|(id, n)| json!({"id": id, "path": n.path, "type": n.logical, "nullable": n.nullable})).collect::<Vec<_>>(),
                "replay": format!("e_sets C43 --seed {} --case {i}", report.seed as i64)})
        });
    }
}

fn selftest(args: &Args) -> i32 {
    quiet_panics();
    let mut a = args.clone();
    a.prop = "C43-selftest".into();
    std::env::set_var("VERIF_EVIDENCE_OUT", "/dev/null");
    let report = Report::new(&a, "exploration", "selftest", (60, 60));
    let base = Sink::collecting();
    for i in 1..150 {
        one_case(&report, &base, i);
    }
    let sink = Sink::collecting();
    CORRUPT_IDS.store(true, Ordering::Relaxed);
    for i in 1..150 {
        one_case(&report, &sink, i);
    }
    CORRUPT_IDS.store(false, Ordering::Relaxed);
    let new: Vec<String> = sink.signatures().into_iter().filter(|s| !base.signatures().contains(s)).collect();
    println!("SELFTEST corrupted-result-ids new signatures={}", new.len());
    if new.iter().any(|s| s.contains("missing")) {
        println!("SELFTEST C43 ok");
        0
    } else {
        println!("SELFTEST C43 FAILED");
        2
    }
}

pub fn run(args: &Args) -> i32 {
    if is_selftest(args) {
        return selftest(args);
    }
    quiet_panics();
    arm_watchdog(args.tier.pick(300, 1500));
    let rule = "Seeded random nested schemas (struct / list / large list / fixed size list, depth <= 3, names with dots, backticks, spaces, unicode, duplicates across levels, random metadata and nullability) with random injective id assignments (canonical, sparse, descending, shuffled). Per schema: resolve/field/field_path for every field through an independently rendered quoted path; project / project_or_drop; project_by_ids (both modes); exclude / intersection / merge against harness-built sub-schemas; Projection union/subtract/intersect by projection, schema, predicate and column, to_schema; Arrow and stored-form (Fields / FieldsWithMeta) round trips. Oracle: ancestor-closed id sets and per-field attribute equality. Non-trivial: schema with nesting depth >= 2 and >= 4 fields; signature = field paths, types and ids.";
    let report = Report::new(args, "exploration", rule, (40, 480)).with_min_nontrivial(300);
    let sink = Sink::to_report(&report);
    if let Some(c) = args.extra.get("case").and_then(|c| c.parse::<u64>().ok()) {
        one_case(&report, &sink, c);
        sink.flush();
        return report.finish();
    }
    let max_cases = args.tier.pick(300_000u64, 20_000_000);
    fan_out(n_threads(), 1, max_cases, &|| report.time_left(), &|i| one_case(&report, &sink, i));
    report.assume("project_by_ids(include_all_children=false) is driven with leaf ids plus any of their ancestors (a listed parent without listed children is ambiguous in the docs)");
    report.assume("missing nested path segments are not generated for project(); empty field names are not addressed by path");
    report.assume("Arrow carries no field ids: ids are compared through the Arrow round trip only when they were the canonical pre-order numbering");
    sink.flush();
    report.finish()
}
