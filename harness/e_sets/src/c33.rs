//! C33 — manifest naming and latest-version discovery are exact.
//!
//! Pure part: `ManifestNamingScheme` functions on boundary / random versions.
//! Store part: random `_versions/` directory contents on a monitored in-memory store (lexically
//! ordered or not, listing order as is / reversed / shuffled) and on a local temp dir; the oracle
//! is `max(published versions)` computed from the file names the generator wrote.
use crate::common::*;
use bytes::Bytes;
use futures::TryStreamExt;
use lance_io::object_store::ObjectStore;
use lance_table::format::DETACHED_VERSION_MASK;
use lance_table::io::commit::{
    migrate_scheme_to_v2, CommitHandler, ConditionalPutCommitHandler, ManifestNamingScheme, RenameCommitHandler,
};
use object_store::path::Path;
use object_store::ObjectStore as OSObjectStore;
use serde_json::{json, Value};
use std::collections::{BTreeMap, BTreeSet};
use std::sync::atomic::{AtomicBool, Ordering};
use std::sync::Arc;
use vmon::prng::Rng;
use vmon::report::{Args, Report};
use vmon::store::{ListOrder, World};

type Fail = (String, String);
const V1: ManifestNamingScheme = ManifestNamingScheme::V1;
const V2: ManifestNamingScheme = ManifestNamingScheme::V2;

/// selftest: report a version one lower than the one observed
static CORRUPT_LATEST: AtomicBool = AtomicBool::new(false);

fn sname(s: ManifestNamingScheme) -> &'static str {
    match s {
        ManifestNamingScheme::V1 => "V1",
        ManifestNamingScheme::V2 => "V2",
    }
}

fn fname(s: ManifestNamingScheme, v: u64) -> String {
    s.manifest_path(&Path::from("base"), v).filename().unwrap().to_string()
}

// ------------------------------------------------------------------------------------------
// pure naming checks

fn boundary_versions() -> Vec<u64> {
    let mut v: BTreeSet<u64> = BTreeSet::new();
    v.extend([0, 1, 2, 9, 10, 11, 99, 100, 101]);
    for k in 1..=63u32 {
        let p = 1u64 << k;
        v.extend([p - 1, p, p + 1]);
    }
    let mut p10 = 1u64;
    for _ in 0..19 {
        p10 *= 10; // up to 10^19
        v.extend([p10 - 1, p10, p10 + 1]);
    }
    for d in 0..4 {
        v.insert(u64::MAX - d);
        v.insert((1u64 << 63) - 1 - d);
        v.insert((1u64 << 63) + d);
        v.insert(10_000_000_000_000_000_000u64 + d);
        v.insert(10_000_000_000_000_000_000u64 - 1 - d);
    }
    v.into_iter().collect()
}

fn is_detached(v: u64) -> bool {
    v & DETACHED_VERSION_MASK != 0
}

fn check_version_naming(v: u64) -> Result<(), Fail> {
    let base = Path::from("some/base");
    for s in [V1, V2] {
        let p = s.manifest_path(&base, v);
        let name = p.filename().unwrap().to_string();
        if !p.as_ref().starts_with("some/base/_versions/") {
            return Err((format!("naming:{}:path-not-under-versions-dir", sname(s)), format!("{p}")));
        }
        if is_detached(v) {
            // never mistaken for an attached version, by either scheme
            for ps in [V1, V2] {
                if let Some(got) = ps.parse_version(&name) {
                    return Err((
                        format!("naming:detached-name-parses-as-attached:{}", sname(ps)),
                        format!("{name} (detached {v}) parses as {got} under {}", sname(ps)),
                    ));
                }
            }
            if ManifestNamingScheme::detect_scheme(&name) != Some(V2) {
                return Err(("naming:detached-name-scheme-not-v2".into(), name));
            }
            if !name.starts_with('d') || !name.ends_with(".manifest") || name[1..name.len() - 9].parse::<u64>() != Ok(v) {
                return Err(("naming:detached-name-does-not-carry-version".into(), format!("{name} for {v}")));
            }
        } else {
            let got = s.parse_version(&name);
            if got != Some(v) {
                return Err((
                    format!("naming:{}:parse-does-not-invert-name", sname(s)),
                    format!("version {v} -> {name} -> {got:?}"),
                ));
            }
            if ManifestNamingScheme::detect_scheme(&name) != Some(s) {
                return Err((
                    format!("naming:{}:detect_scheme-wrong", sname(s)),
                    format!("{name} detected as {:?}", ManifestNamingScheme::detect_scheme(&name)),
                ));
            }
            // staging name = final path + "-" + uuid
            let staging = format!("{name}-6ba7b810-9dad-11d1-80b4-00c04fd430c8");
            if ManifestNamingScheme::detect_scheme_staging(&staging) != s {
                return Err((format!("naming:{}:detect_scheme_staging-wrong", sname(s)), staging));
            }
            if ManifestNamingScheme::detect_scheme(&staging).is_some() {
                return Err((format!("naming:{}:staging-name-detected-as-manifest", sname(s)), staging));
            }
            if s == V2 && name.len() != 29 {
                return Err(("naming:V2:name-not-20-digits".into(), name));
            }
        }
    }
    Ok(())
}

/// V2 names sort in reverse version order; detached names sort after every attached name.
fn check_order(a: u64, b: u64) -> Result<(), Fail> {
    if is_detached(a) || is_detached(b) || a == b {
        return Ok(());
    }
    let (lo, hi) = if a < b { (a, b) } else { (b, a) };
    let (nlo, nhi) = (fname(V2, lo), fname(V2, hi));
    if !(nhi < nlo) {
        return Err(("naming:V2:names-not-in-reverse-version-order".into(), format!("{hi} -> {nhi}, {lo} -> {nlo}")));
    }
    let d = fname(V2, lo | DETACHED_VERSION_MASK);
    if !(d > nlo && d > nhi) {
        return Err(("naming:V2:detached-name-sorts-before-attached".into(), d));
    }
    Ok(())
}

fn pure_part(report: &Report, sink: &Sink, n_random: u64) {
    let bv = boundary_versions();
    let mut checked = 0u64;
    let mut note = |r: Result<(), Fail>, w: Value| {
        checked += 1;
        if let Err((s, d)) = r {
            sink.violation_lazy(&s, &d, || json!({"part": "naming", "input": w, "detail": d}));
        }
    };
    for v in &bv {
        note(check_version_naming(*v), json!({"version": v}));
        report.case(Some(hash_of(&("bv", v))));
    }
    for (i, a) in bv.iter().enumerate() {
        for b in [bv.get(i + 1), bv.get(i + 7), bv.last()].into_iter().flatten() {
            note(check_order(*a, *b), json!({"versions": [a, b]}));
        }
    }
    report.set("boundary_versions", json!(bv.len()));
    let mut rng = Rng::for_case(report.seed, 0x33);
    for i in 0..n_random {
        let v = match i % 4 {
            0 => rng.next_u64(),
            1 => rng.next_u64() >> rng.below(64),
            2 => rng.next_u64() & !DETACHED_VERSION_MASK,
            _ => rng.below(1_000_000),
        };
        let w = rng.next_u64() >> rng.below(64);
        note(check_version_naming(v), json!({"version": v}));
        note(check_order(v & !DETACHED_VERSION_MASK, w & !DETACHED_VERSION_MASK), json!({"versions": [v, w]}));
        report.case(Some(hash_of(&("rv", v))));
    }
    report.count("naming_checks", checked);
}

// ------------------------------------------------------------------------------------------
// directory contents

#[derive(Clone, Debug)]
struct Dir {
    scheme: ManifestNamingScheme,
    published: BTreeSet<u64>,
    detached: BTreeSet<u64>,
    staging: Vec<String>,
    junk: Vec<String>,
}

impl Dir {
    fn gen(rng: &mut Rng) -> Self {
        let scheme = if rng.bool() { V1 } else { V2 };
        let mut published = BTreeSet::new();
        let top = match rng.below(5) {
            0 => rng.below(6) + 1,
            1 => rng.below(3000) + 1,
            2 => (1u64 << 32) + rng.below(10),
            3 => (1u64 << 63) - 1 - rng.below(3),
            _ => rng.below(200) + 1,
        };
        match rng.below(4) {
            0 => {
                // dense 1..=n (n small enough)
                for v in 1..=top.min(60) {
                    published.insert(v);
                }
            }
            1 => {
                // after cleanup: a dense tail
                let n = rng.below(12) + 1;
                for k in 0..n {
                    published.insert(top.saturating_sub(k).max(1));
                }
            }
            2 => {
                // sparse
                let n = rng.below(25) + 1;
                for _ in 0..n {
                    published.insert(rng.below(top) + 1);
                }
            }
            _ => {
                // digit-length boundaries (9 < 10 < 100 as strings!)
                for v in [1u64, 2, 9, 10, 11, 99, 100, 101, 999, 1000] {
                    if rng.chance(2, 3) {
                        published.insert(v);
                    }
                }
                published.insert(rng.below(1200) + 1);
            }
        }
        let mut detached = BTreeSet::new();
        if scheme == V2 && rng.chance(1, 3) {
            for _ in 0..rng.urange(1, 4) {
                detached.insert(DETACHED_VERSION_MASK | (rng.next_u64() >> 1));
            }
        }
        let mut staging = vec![];
        if rng.chance(1, 2) {
            for _ in 0..rng.urange(1, 3) {
                // a staged manifest of a version that may or may not exist (often the next one)
                let v = match rng.below(3) {
                    0 => published.iter().next_back().copied().unwrap_or(1).saturating_add(1) & !DETACHED_VERSION_MASK,
                    1 => *published.iter().next().unwrap_or(&1),
                    _ => rng.below(5000) + 1,
                };
                let u = uuid_from(rng);
                staging.push(format!("{}-{}", fname(scheme, v), u));
            }
        }
        let mut junk = vec![];
        if rng.chance(1, 2) {
            let pool = [
                format!(".tmp_{}_{}", fname(scheme, 7), uuid_from(rng)),
                format!(".tmp_{}", uuid_from(rng)),
                "README".to_string(),
                "notes.txt".to_string(),
                "0".to_string(),
                "99999".to_string(),
                format!("{}.bak", fname(scheme, 3)),
                "manifest.bak".to_string(),
            ];
            for _ in 0..rng.urange(1, 3) {
                junk.push(rng.pick(&pool).clone());
            }
            junk.sort();
            junk.dedup();
        }
        Self { scheme, published, detached, staging, junk }
    }
    fn files(&self) -> Vec<String> {
        let mut f: Vec<String> = self.published.iter().map(|v| fname(self.scheme, *v)).collect();
        f.extend(self.detached.iter().map(|v| fname(self.scheme, *v)));
        f.extend(self.staging.iter().cloned());
        f.extend(self.junk.iter().cloned());
        f
    }
    fn max(&self) -> u64 {
        *self.published.iter().next_back().unwrap()
    }
    fn flags(&self) -> String {
        let mut f = vec![];
        if !self.detached.is_empty() {
            f.push("detached-present");
        }
        if !self.staging.is_empty() {
            f.push("staging-present");
        }
        if !self.junk.is_empty() {
            f.push("junk-present");
        }
        if f.is_empty() {
            "manifests-only".into()
        } else {
            f.join("+")
        }
    }
    fn brief(&self) -> Value {
        json!({"scheme": sname(self.scheme), "published": self.published.iter().take(40).collect::<Vec<_>>(), "published_count": self.published.len(),
            "detached": self.detached, "staging": self.staging, "junk": self.junk})
    }
}

fn uuid_from(rng: &mut Rng) -> String {
    let b = rng.bytes(16);
    let mut arr = [0u8; 16];
    arr.copy_from_slice(&b);
    uuid::Builder::from_random_bytes(arr).into_uuid().to_string()
}

fn err_class(e: &str) -> &'static str {
    if e.contains("Found V2 manifest in a V1 manifest directory") {
        "error-v2-manifest-in-v1-directory"
    } else if e.contains("multiple manifest naming schemes") {
        "error-multiple-schemes"
    } else if e.to_lowercase().contains("not found") {
        "error-not-found"
    } else {
        "error-other"
    }
}

#[derive(Clone, Copy, Debug, PartialEq)]
enum StoreKind {
    MemLexical,
    MemLexicalReversedListing,
    MemUnordered(ListOrder),
    Local,
}

impl StoreKind {
    fn tag(&self) -> &'static str {
        match self {
            StoreKind::MemLexical => "memory-lexical",
            StoreKind::MemLexicalReversedListing => "memory-lexical-flag-reversed-listing",
            StoreKind::MemUnordered(_) => "memory-unordered",
            StoreKind::Local => "local-fs",
        }
    }
}

async fn resolve_latest(
    handler: &dyn CommitHandler,
    store: &ObjectStore,
    base: &Path,
) -> Result<Result<(u64, String, ManifestNamingScheme), String>, String> {
    let fut = handler.resolve_latest_location(base, store);
    let r = std::panic::AssertUnwindSafe(fut);
    match futures::FutureExt::catch_unwind(r).await {
        Ok(Ok(loc)) => {
            let mut v = loc.version;
            if CORRUPT_LATEST.load(Ordering::Relaxed) && v > 1 {
                v -= 1;
            }
            Ok(Ok((v, loc.path.to_string(), loc.naming_scheme)))
        }
        Ok(Err(e)) => Ok(Err(e.to_string())),
        Err(p) => Err(if let Some(s) = p.downcast_ref::<String>() {
            s.clone()
        } else if let Some(s) = p.downcast_ref::<&str>() {
            s.to_string()
        } else {
            "panic".into()
        }),
    }
}

fn judge_latest(
    dir: &Dir,
    kind: StoreKind,
    base: &Path,
    r: Result<Result<(u64, String, ManifestNamingScheme), String>, String>,
) -> Result<(), Fail> {
    let pre = format!("latest:{}:{}", kind.tag(), sname(dir.scheme));
    let flags = dir.flags();
    match r {
        // a panic can only depend on which names are present: narrow by the one class that is
        // not a plain version name and still passes `detect_scheme`
        Err(p) => Err((format!("{pre}:panic:{}", if dir.detached.is_empty() { "no-detached-names" } else { "detached-present" }), p)),
        Ok(Err(e)) => {
            let c = err_class(&e);
            if c == "error-v2-manifest-in-v1-directory" {
                Err((format!("{pre}:{c}"), e))
            } else {
                Err((format!("{pre}:{c}:{flags}"), e))
            }
        }
        Ok(Ok((v, path, scheme))) => {
            if !dir.published.contains(&v) {
                return Err((format!("{pre}:unpublished-version:{flags}"), format!("resolved {v}, published max {}", dir.max())));
            }
            let want = dir.max();
            let must_be_max = kind != StoreKind::MemLexicalReversedListing || dir.scheme == V1;
            if must_be_max && v != want {
                return Err((format!("{pre}:not-the-highest-published-version:{flags}"), format!("resolved {v}, highest published {want}")));
            }
            let want_path = dir.scheme.manifest_path(base, v).to_string();
            if path.trim_start_matches('/') != want_path.trim_start_matches('/') {
                return Err((format!("{pre}:wrong-path:{flags}"), format!("{path} vs {want_path}")));
            }
            if scheme != dir.scheme {
                return Err((format!("{pre}:wrong-scheme:{flags}"), format!("{:?}", scheme)));
            }
            Ok(())
        }
    }
}

async fn list_versions(handler: &dyn CommitHandler, store: &ObjectStore, base: &Path, sorted: bool) -> Result<Vec<u64>, String> {
    let fut = async {
        handler
            .list_manifest_locations(base, store, sorted)
            .map_ok(|l| l.version)
            .try_collect::<Vec<u64>>()
            .await
            .map_err(|e| e.to_string())
    };
    match futures::FutureExt::catch_unwind(std::panic::AssertUnwindSafe(fut)).await {
        Ok(r) => r,
        Err(_) => Err("panic".into()),
    }
}

async fn memory_case(report: &Report, sink: &Sink<'_>, i: u64, rng: &mut Rng) {
    let dir = Dir::gen(rng);
    let world = World::memory();
    let actor = world.actor(0);
    let base = Path::from("tbl");
    let mut files = dir.files();
    rng.shuffle(&mut files);
    for f in &files {
        let p = base.child("_versions").child(f.as_str());
        if let Err(e) = world.backing.put(&p, Bytes::from_static(b"x").into()).await {
            report.harness_error(&format!("cannot create {p}: {e}"));
            return;
        }
    }
    let kinds = [
        StoreKind::MemLexical,
        StoreKind::MemUnordered(ListOrder::AsIs),
        StoreKind::MemUnordered(ListOrder::Reversed),
        StoreKind::MemUnordered(ListOrder::Shuffled(rng.next_u64())),
        StoreKind::MemLexicalReversedListing,
    ];
    let handlers: [(&str, Arc<dyn CommitHandler>); 2] =
        [("conditional-put", Arc::new(ConditionalPutCommitHandler)), ("rename", Arc::new(RenameCommitHandler))];
    let (hname, handler) = &handlers[(i % 2) as usize];
    let mut sigparts = vec![];
    for kind in kinds {
        let (lexical, order) = match kind {
            StoreKind::MemLexical => (true, ListOrder::AsIs),
            StoreKind::MemLexicalReversedListing => (true, ListOrder::Reversed),
            StoreKind::MemUnordered(o) => (false, o),
            StoreKind::Local => unreachable!(),
        };
        *world.list_order.lock().unwrap() = order;
        let os: Arc<dyn OSObjectStore> = actor.clone();
        let store = ObjectStore::new(os, url::Url::parse("memory:///").unwrap(), None, None, false, lexical, 8, 3, None);
        let r = resolve_latest(handler.as_ref(), &store, &base).await;
        sigparts.push(format!("{:?}", r.as_ref().map(|x| x.as_ref().map(|y| y.0).map_err(|e| err_class(e)))));
        if let Err((sig, what)) = judge_latest(&dir, kind, &base, r) {
            sink.violation_lazy(&sig, &what, || {
                json!({"seed": report.seed as i64, "case": i, "store": format!("{kind:?}"), "handler": hname, "directory": dir.brief(), "detail": what,
                    "replay": format!("e_sets C33 --seed {} --case {i}", report.seed as i64)})
            });
        }
        // listing of all manifest locations (skip the deliberately broken promise)
        if kind != StoreKind::MemLexicalReversedListing {
            let want_desc: Vec<u64> = dir.published.iter().rev().copied().collect();
            match list_versions(handler.as_ref(), &store, &base, true).await {
                Ok(got) => {
                    let got_attached: Vec<u64> = got.iter().copied().filter(|v| !is_detached(*v)).collect();
                    if got_attached != want_desc {
                        let class = if { let mut g = got_attached.clone(); g.sort(); g.reverse(); g } == want_desc { "not-descending" } else { "wrong-version-set" };
                        sink.violation_lazy(
                            &format!("list-locations:{}:{}:{class}:{}", kind.tag(), sname(dir.scheme), dir.flags()),
                            &format!("sorted listing yields {} versions (first {:?}), published {} (first {:?})", got.len(), got.first(), want_desc.len(), want_desc.first()),
                            || json!({"seed": report.seed as i64, "case": i, "store": format!("{kind:?}"), "directory": dir.brief(), "listed": got.iter().take(40).collect::<Vec<_>>()}),
                        );
                    }
                }
                Err(e) => sink.violation_lazy(
                    &format!("list-locations:{}:{}:{}:{}", kind.tag(), sname(dir.scheme), if e == "panic" { "panic" } else { err_class(&e) }, dir.flags()),
                    &e,
                    || json!({"seed": report.seed as i64, "case": i, "store": format!("{kind:?}"), "directory": dir.brief()}),
                ),
            }
            report.count("listings_compared", 1);
        }
        report.count("latest_resolutions_compared", 1);
    }
    // resolve a specific version: the path of the scheme in use
    *world.list_order.lock().unwrap() = ListOrder::AsIs;
    {
        let v = *rng.pick(&dir.published.iter().copied().collect::<Vec<_>>());
        match handler.resolve_version_location(&base, v, actor.as_ref()).await {
            Ok(loc) => {
                let want = dir.scheme.manifest_path(&base, v);
                if loc.path != want || loc.version != v {
                    sink.violation_lazy(
                        &format!("resolve-version:{}:wrong-location", sname(dir.scheme)),
                        &format!("version {v}: {} (v{}) vs {want}", loc.path, loc.version),
                        || json!({"seed": report.seed as i64, "case": i, "directory": dir.brief()}),
                    );
                }
            }
            Err(e) => sink.violation_lazy(&format!("resolve-version:{}:error", sname(dir.scheme)), &e.to_string(), || json!({"seed": report.seed as i64, "case": i, "directory": dir.brief()})),
        }
    }
    // migration V1 -> V2 keeps the version set (and leaves everything else alone)
    if dir.scheme == V1 {
        let os: Arc<dyn OSObjectStore> = actor.clone();
        let store = ObjectStore::new(os, url::Url::parse("memory:///").unwrap(), None, None, false, true, 8, 3, None);
        let mut ok = true;
        for round in 0..2 {
            if let Err(e) = migrate_scheme_to_v2(&store, &base).await {
                ok = false;
                sink.violation_lazy(&format!("migrate:error:{}", dir.flags()), &e.to_string(), || json!({"seed": report.seed as i64, "case": i, "round": round, "directory": dir.brief()}));
                break;
            }
        }
        if ok {
            let names: BTreeSet<String> = world
                .list_paths()
                .await
                .into_iter()
                .filter_map(|p| p.rsplit('/').next().map(|s| s.to_string()))
                .collect();
            let mut want: BTreeSet<String> = dir.published.iter().map(|v| fname(V2, *v)).collect();
            want.extend(dir.staging.iter().cloned());
            want.extend(dir.junk.iter().cloned());
            if names != want {
                let versions: BTreeSet<u64> = names.iter().filter_map(|n| (ManifestNamingScheme::detect_scheme(n) == Some(V2)).then(|| V2.parse_version(n)).flatten()).collect();
                let class = if versions != dir.published { "version-set-changed" } else { "other-files-changed" };
                sink.violation_lazy(
                    &format!("migrate:{class}:{}", dir.flags()),
                    &format!("{} files after migration, expected {}", names.len(), want.len()),
                    || json!({"seed": report.seed as i64, "case": i, "directory": dir.brief(), "after": names.iter().take(50).collect::<Vec<_>>()}),
                );
            } else {
                let mut d2 = dir.clone();
                d2.scheme = V2;
                let r = resolve_latest(handler.as_ref(), &store, &base).await;
                if let Err((sig, what)) = judge_latest(&d2, StoreKind::MemLexical, &base, r) {
                    sink.violation_lazy(&format!("after-migrate:{sig}"), &what, || json!({"seed": report.seed as i64, "case": i, "directory": dir.brief()}));
                }
            }
            report.count("migrations_checked", 1);
        }
    }
    let nt = dir.published.len() >= 2;
    report.case(nt.then(|| hash_of(&("mem", sname(dir.scheme), &dir.published, dir.flags(), sigparts))));
    if i % 211 == 5 && report.want_sample() {
        report.sample(json!({"part": "memory-directory", "case": i, "directory": dir.brief(), "expected_latest": dir.max()}));
    }
}

async fn local_case(report: &Report, sink: &Sink<'_>, i: u64, rng: &mut Rng) {
    let dir = Dir::gen(rng);
    let tmp = match tempfile::Builder::new().prefix("e_sets-c33-").tempdir() {
        Ok(t) => t,
        Err(e) => {
            report.harness_error(&format!("tempdir: {e}"));
            return;
        }
    };
    let vdir = tmp.path().join("_versions");
    if let Err(e) = std::fs::create_dir_all(&vdir) {
        report.harness_error(&format!("mkdir: {e}"));
        return;
    }
    let mut files = dir.files();
    rng.shuffle(&mut files);
    for f in &files {
        if let Err(e) = std::fs::write(vdir.join(f), b"x") {
            report.harness_error(&format!("write {f}: {e}"));
            return;
        }
    }
    let store = ObjectStore::local();
    let base = Path::from_filesystem_path(tmp.path()).unwrap();
    let handler = ConditionalPutCommitHandler;
    let r = resolve_latest(&handler, &store, &base).await;
    let sigpart = format!("{:?}", r.as_ref().map(|x| x.as_ref().map(|y| y.0).map_err(|e| err_class(e))));
    if let Err((sig, what)) = judge_latest(&dir, StoreKind::Local, &base, r) {
        sink.violation_lazy(&sig, &what, || {
            json!({"seed": report.seed as i64, "case": i, "store": "local", "directory": dir.brief(), "detail": what,
                "replay": format!("e_sets C33 --seed {} --case {i}", report.seed as i64)})
        });
    }
    let want_desc: Vec<u64> = dir.published.iter().rev().copied().collect();
    match list_versions(&handler, &store, &base, true).await {
        Ok(got) => {
            let got_attached: Vec<u64> = got.iter().copied().filter(|v| !is_detached(*v)).collect();
            if got_attached != want_desc {
                sink.violation_lazy(
                    &format!("list-locations:local-fs:{}:wrong:{}", sname(dir.scheme), dir.flags()),
                    &format!("sorted listing yields {:?}.., published {:?}..", got.iter().take(5).collect::<Vec<_>>(), want_desc.iter().take(5).collect::<Vec<_>>()),
                    || json!({"seed": report.seed as i64, "case": i, "directory": dir.brief()}),
                );
            }
        }
        Err(e) => sink.violation_lazy(
            &format!("list-locations:local-fs:{}:{}:{}", sname(dir.scheme), if e == "panic" { "panic" } else { err_class(&e) }, dir.flags()),
            &e,
            || json!({"seed": report.seed as i64, "case": i, "directory": dir.brief()}),
        ),
    }
    report.count("latest_resolutions_compared", 1);
    report.count("listings_compared", 1);
    let nt = dir.published.len() >= 2;
    report.case(nt.then(|| hash_of(&("local", sname(dir.scheme), &dir.published, dir.flags(), sigpart))));
}

thread_local! {
    static RT: tokio::runtime::Runtime = tokio::runtime::Builder::new_current_thread().enable_all().build().unwrap();
}

fn dir_case(report: &Report, sink: &Sink, i: u64) {
    let mut rng = Rng::for_case(report.seed, i);
    RT.with(|rt| {
        rt.block_on(async {
            if i % 5 == 0 {
                local_case(report, sink, i, &mut rng).await
            } else {
                memory_case(report, sink, i, &mut rng).await
            }
        })
    });
}

fn selftest(args: &Args) -> i32 {
    quiet_panics();
    let mut a = args.clone();
    a.prop = "C33-selftest".into();
    std::env::set_var("VERIF_EVIDENCE_OUT", "/dev/null");
    let report = Report::new(&a, "exploration", "selftest", (60, 60));
    let base = Sink::collecting();
    for i in 1..60 {
        dir_case(&report, &base, i);
    }
    let sink = Sink::collecting();
    CORRUPT_LATEST.store(true, Ordering::Relaxed);
    for i in 1..60 {
        dir_case(&report, &sink, i);
    }
    CORRUPT_LATEST.store(false, Ordering::Relaxed);
    let new: Vec<String> = sink.signatures().into_iter().filter(|s| !base.signatures().contains(s)).collect();
    println!("SELFTEST corrupted-latest new signatures={}", new.len());
    let caught2 = check_order(5, 5).is_ok() && {
        // a name that does not invert must be flagged: feed the parser a V1 name under V2
        V2.parse_version(&fname(V1, 12)) != Some(12)
    };
    println!("SELFTEST naming sanity={caught2}");
    if !new.is_empty() && caught2 {
        println!("SELFTEST C33 ok");
        0
    } else {
        println!("SELFTEST C33 FAILED");
        2
    }
}

pub fn run(args: &Args) -> i32 {
    if is_selftest(args) {
        return selftest(args);
    }
    quiet_panics();
    arm_watchdog(args.tier.pick(300, 1500));
    let rule = "Naming: every boundary version (0,1,2^k-1/2^k/2^k+1 for k<=63, 10^k neighbourhoods up to 10^19, 2^63 and u64::MAX neighbourhoods; enumerated completely) plus seeded random versions: parse(name(v)) == v for attached v under V1 and V2, detached names never parse, detect_scheme / detect_scheme_staging, V2 reverse string order. Discovery: seeded random `_versions/` contents (scheme V1|V2; dense / tail-after-cleanup / sparse / digit-length-boundary version sets up to 2^63-1; staging `<name>-<uuid>`, `.tmp_*`, detached `d*` (V2 only), junk) resolved through ConditionalPut/Rename commit handlers on a monitored memory store with list_is_lexically_ordered = true (listing as is; reversed listing only checked for 'a published version') and = false (as is / reversed / shuffled), and on a local temp dir; list_manifest_locations, resolve_version_location, migrate_scheme_to_v2. Non-trivial: directory with >= 2 published versions; signature = (store, scheme, version set, file classes, outcomes).";
    let report = Report::new(args, "exploration", rule, (40, 480)).with_min_nontrivial(100);
    let sink = Sink::to_report(&report);
    if let Some(c) = args.extra.get("case").and_then(|c| c.parse::<u64>().ok()) {
        dir_case(&report, &sink, c);
        sink.flush();
        return report.finish();
    }
    pure_part(&report, &sink, args.tier.pick(200_000, 5_000_000));
    report.exhaustive(true);
    report.set("t_after_naming_s", json!((report.elapsed_s() * 10.0).round() / 10.0));
    let max_cases = args.tier.pick(100_000u64, 5_000_000);
    fan_out(n_threads(), 1, max_cases, &|| report.time_left(), &|i| dir_case(&report, &sink, i));
    report.assume("one naming scheme per directory; detached names only in V2 directories; files whose name ends in `.manifest` are always manifests written by Lance");
    report.assume("listing order is only permuted for stores opened with list_is_lexically_ordered=false; with the flag set a reversed listing is only required to resolve to a published version");
    sink.flush();
    report.finish()
}

#[allow(dead_code)]
fn _unused(_: BTreeMap<u8, u8>) {}
