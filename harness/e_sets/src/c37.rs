//! C37 — feature flags and version strings gate compatibility correctly.
//!
//! Pure part (no tokio): all flag words, `apply_feature_flags` as a function of manifest contents,
//! `LanceFileVersion` conversions. Dataset part: manifests rewritten with unknown bits, random
//! histories after which the written flags must equal the function of the contents.
use crate::common::*;
use arrow_array::{Int64Array, RecordBatch, RecordBatchIterator, StringArray};
use arrow_schema::{DataType, Field as AField, Schema as ASchema};
use lance::dataset::optimize::{compact_files, CompactionOptions};
use lance::dataset::{WriteMode, WriteParams};
use lance::Dataset;
use lance_core::datatypes::Schema;
use lance_encoding::version::LanceFileVersion;
use lance_table::feature_flags::*;
use lance_table::format::{BasePath, DataFile, DataStorageFormat, DeletionFile, DeletionFileType, Fragment, Manifest, RowIdMeta};
use lance_table::io::commit::write_manifest_file_to_path;
use object_store::path::Path;
use serde_json::json;
use std::collections::{BTreeMap, HashMap};
use std::str::FromStr;
use std::sync::atomic::{AtomicBool, Ordering};
use std::sync::Arc;
use vmon::prng::Rng;
use vmon::report::{Args, Report};
use vmon::store::World;
use vmon::table::Actor;

type Fail = (String, String);
const KNOWN: u64 = FLAG_DELETION_FILES | FLAG_STABLE_ROW_IDS | FLAG_USE_V2_FORMAT_DEPRECATED | FLAG_TABLE_CONFIG | FLAG_BASE_PATHS | FLAG_DISABLE_TRANSACTION_FILE;

/// selftest: pretend the observed writer flags lack the deletion bit
static CORRUPT_FLAGS: AtomicBool = AtomicBool::new(false);

// ------------------------------------------------------------------------------------------
// pure: flag words

fn flag_words(report: &Report, sink: &Sink) {
    let mut n = 0u64;
    let mut check = |w: u64| {
        n += 1;
        let want = w & !KNOWN == 0;
        if can_read_dataset(w) != want {
            sink.violation_lazy(
                if want { "flags:can_read:rejects-known-bits" } else { "flags:can_read:accepts-unknown-bit" },
                &format!("can_read_dataset({w:#x}) = {}", !want),
                || json!({"flags": w}),
            );
        }
        if can_write_dataset(w) != want {
            sink.violation_lazy(
                if want { "flags:can_write:rejects-known-bits" } else { "flags:can_write:accepts-unknown-bit" },
                &format!("can_write_dataset({w:#x}) = {}", !want),
                || json!({"flags": w}),
            );
        }
        report.case(Some(hash_of(&("word", w))));
    };
    // every word over the 6 known bits and the first 2 unknown bits
    for w in 0..256u64 {
        check(w);
    }
    // every unknown bit alone and with every combination of known bits
    for k in 6..64u32 {
        for known in 0..64u64 {
            check((1u64 << k) | known);
        }
    }
    check(u64::MAX);
    report.count("flag_words_checked", n);
    if FLAG_UNKNOWN != 64 || KNOWN != 63 {
        report.harness_error("the set of known feature flag bits changed; update the C37 oracle (KNOWN) and the docs check");
    }
}

// ------------------------------------------------------------------------------------------
// pure: apply_feature_flags as a function of manifest contents

fn tiny_schema() -> Schema {
    Schema::try_from(&ASchema::new(vec![AField::new("id", DataType::Int64, false)])).unwrap()
}

fn apply_case(report: &Report, sink: &Sink, i: u64) {
    let mut rng = Rng::for_case(report.seed, 0x37_0000_0000 + i);
    let nfrag = rng.urange(0, 4);
    let rowid_mode = rng.below(4); // 0 none, 1 all, 2 some, 3 all-external
    let mut frags = vec![];
    for f in 0..nfrag {
        let mut fr = Fragment::new(f as u64);
        fr.files.push(DataFile::new_legacy_from_fields(format!("d{f}.lance"), vec![0], None));
        fr.physical_rows = Some(10);
        if rng.chance(1, 3) {
            fr.deletion_file = Some(DeletionFile {
                read_version: rng.below(10),
                id: rng.next_u64(),
                file_type: if rng.bool() { DeletionFileType::Array } else { DeletionFileType::Bitmap },
                num_deleted_rows: if rng.bool() { Some(rng.usize_below(10)) } else { None },
                base_id: None,
            });
        }
        let with_ids = match rowid_mode {
            0 => false,
            1 | 3 => true,
            _ => rng.bool(),
        };
        if with_ids {
            fr.row_id_meta = Some(RowIdMeta::Inline(vec![1, 2, 3]));
        }
        frags.push(fr);
    }
    let mut base_paths = HashMap::new();
    if rng.chance(1, 4) {
        base_paths.insert(1u32, BasePath::new(1, "memory://other".into(), None, rng.bool()));
    }
    let mut m = Manifest::new(tiny_schema(), Arc::new(frags.clone()), DataStorageFormat::new(LanceFileVersion::V2_0), base_paths.clone());
    if rng.chance(1, 3) {
        m.config.insert("k".into(), "v".into());
    }
    if rng.chance(1, 5) {
        m.table_metadata.insert("t".into(), "v".into());
    }
    // stale flags from a previous version must not leak through
    m.reader_feature_flags = rng.below(64);
    m.writer_feature_flags = rng.below(64);
    let enable = rng.chance(1, 3);
    let disable_txn = rng.chance(1, 4);
    let has_del = frags.iter().any(|f| f.deletion_file.is_some());
    let any_ids = frags.iter().any(|f| f.row_id_meta.is_some());
    let all_ids = frags.iter().all(|f| f.row_id_meta.is_some());
    let want: Result<(u64, u64), ()> = if (any_ids || enable) && !all_ids {
        Err(())
    } else {
        let mut r = 0;
        let mut w = 0;
        if has_del {
            r |= FLAG_DELETION_FILES;
            w |= FLAG_DELETION_FILES;
        }
        if any_ids || enable {
            r |= FLAG_STABLE_ROW_IDS;
            w |= FLAG_STABLE_ROW_IDS;
        }
        if !m.config.is_empty() {
            w |= FLAG_TABLE_CONFIG;
        }
        if !base_paths.is_empty() {
            r |= FLAG_BASE_PATHS;
            w |= FLAG_BASE_PATHS;
        }
        if disable_txn {
            w |= FLAG_DISABLE_TRANSACTION_FILE;
        }
        Ok((r, w))
    };
    let got = apply_feature_flags(&mut m, enable, disable_txn).map(|_| (m.reader_feature_flags, m.writer_feature_flags));
    let desc = || json!({"seed": report.seed as i64, "case": i, "fragments": nfrag, "deletion_files": has_del, "row_ids": [any_ids, all_ids], "enable_stable_row_id": enable,
        "disable_transaction_file": disable_txn, "config": m.config.len(), "base_paths": base_paths.len()});
    match (&got, &want) {
        (Ok(g), Ok(w)) if g == w => {}
        (Err(_), Err(())) => report.rejected(),
        (Ok(g), Ok(w)) => {
            let class = if g.0 != w.0 { "reader-flags" } else { "writer-flags" };
            let bits = (g.0 ^ w.0) | (g.1 ^ w.1);
            sink.violation_lazy(&format!("apply_feature_flags:{class}-differ:bits-{bits:#x}"), &format!("flags {g:?}, function of contents {w:?}"), desc);
        }
        (Ok(g), Err(())) => sink.violation_lazy("apply_feature_flags:accepts-fragments-partly-without-row-ids", &format!("{g:?}"), desc),
        (Err(e), Ok(_)) => sink.violation_lazy("apply_feature_flags:error-on-valid-manifest", &e.to_string(), desc),
    }
    let nt = has_del || any_ids || !m.config.is_empty() || !base_paths.is_empty();
    report.case(nt.then(|| hash_of(&("apply", has_del, any_ids, all_ids, enable, disable_txn, m.config.len(), base_paths.len(), nfrag))));
}

// ------------------------------------------------------------------------------------------
// pure: LanceFileVersion

fn file_versions(report: &Report, sink: &Sink) {
    use LanceFileVersion::*;
    let all = [Legacy, V2_0, Stable, V2_1, Next, V2_2];
    let mut n = 0u64;
    let mut bad = |sig: &str, what: String| {
        sink.violation_lazy(sig, &what, || json!({"detail": what}));
    };
    // documented table (docs/src/format/file/versioning.md + doc comments in version.rs)
    let concrete: BTreeMap<&str, (LanceFileVersion, (u32, u32))> =
        [("0.1", (Legacy, (0, 2))), ("2.0", (V2_0, (2, 0))), ("2.1", (V2_1, (2, 1))), ("2.2", (V2_2, (2, 2)))].into_iter().collect();
    let aliases: [(&str, LanceFileVersion, LanceFileVersion); 4] = [("legacy", Legacy, Legacy), ("stable", Stable, V2_0), ("next", Next, V2_1), ("0.3", V2_0, V2_0)];
    for v in all {
        n += 1;
        // Display / FromStr round trip
        let s = v.to_string();
        match LanceFileVersion::from_str(&s) {
            Ok(b) if b == v => {}
            other => bad("file-version:display-parse-roundtrip", format!("{v:?} -> {s:?} -> {other:?}")),
        }
        // resolve is idempotent and lands on a concrete version
        let r = v.resolve();
        if r.resolve() != r || matches!(r, Stable | Next) {
            bad("file-version:resolve-not-concrete", format!("{v:?} -> {r:?}"));
        }
        // numbers round trip through the resolved version
        let (ma, mi) = v.to_numbers();
        match LanceFileVersion::try_from_major_minor(ma, mi) {
            Ok(b) if b == r => {}
            other => bad("file-version:numbers-roundtrip", format!("{v:?} -> ({ma},{mi}) -> {other:?}")),
        }
        if r.to_numbers() != (ma, mi) {
            bad("file-version:alias-numbers-differ-from-resolved", format!("{v:?}"));
        }
        // the stability verdict of an alias is that of the version it stands for
        if v.is_unstable() != r.is_unstable() {
            bad(
                &format!("file-version:is_unstable-differs-between-alias-and-resolved:{}", v.to_string()),
                format!("{v:?}.is_unstable() = {}, {r:?}.is_unstable() = {}", v.is_unstable(), r.is_unstable()),
            );
        }
        // DataStorageFormat stores the resolved version string
        let dsf = DataStorageFormat::new(v);
        match dsf.lance_file_version() {
            Ok(b) if b == r => {}
            other => bad("file-version:data-storage-format-roundtrip", format!("{v:?} -> {:?} -> {other:?}", dsf.version)),
        }
        report.case(Some(hash_of(&("ver", s))));
    }
    for (s, (v, nums)) in &concrete {
        n += 1;
        if LanceFileVersion::from_str(s).ok() != Some(*v) || v.to_numbers() != *nums || v.to_string() != *s {
            bad("file-version:concrete-table", format!("{s} / {v:?} / {nums:?}"));
        }
    }
    for (s, parsed, resolved) in aliases {
        n += 1;
        for variant in [s.to_string(), s.to_uppercase()] {
            match LanceFileVersion::from_str(&variant) {
                Ok(p) if p == parsed && p.resolve() == resolved => {}
                other => bad("file-version:alias-resolves-to-undocumented-version", format!("{variant:?} -> {other:?}, documented {resolved:?}")),
            }
        }
        report.case(Some(hash_of(&("alias", s))));
    }
    for s in ["", "2", "2.3", "1.0", "v2.0", "2.0 ", "latest", "0.2"] {
        n += 1;
        if let Ok(v) = LanceFileVersion::from_str(s) {
            bad("file-version:accepts-unknown-string", format!("{s:?} -> {v:?}"));
        }
    }
    // all number pairs of a small grid: accepted pairs must round trip to themselves or a documented alias
    let accepted: BTreeMap<(u32, u32), LanceFileVersion> = [((0, 0), Legacy), ((0, 1), Legacy), ((0, 2), Legacy), ((0, 3), V2_0), ((2, 0), V2_0), ((2, 1), V2_1), ((2, 2), V2_2)].into_iter().collect();
    for ma in 0..5u32 {
        for mi in 0..5u32 {
            n += 1;
            let got = LanceFileVersion::try_from_major_minor(ma, mi).ok();
            if got != accepted.get(&(ma, mi)).copied() {
                bad("file-version:major-minor-table", format!("({ma},{mi}) -> {got:?}"));
            }
        }
    }
    report.count("file_version_checks", n);
}

// ------------------------------------------------------------------------------------------
// dataset level

fn batch(ids: std::ops::Range<i64>) -> RecordBatch {
    let schema = Arc::new(ASchema::new(vec![AField::new("id", DataType::Int64, false), AField::new("s", DataType::Utf8, true)]));
    let n = ids.clone().count();
    RecordBatch::try_new(
        schema,
        vec![Arc::new(Int64Array::from_iter_values(ids)), Arc::new(StringArray::from_iter_values((0..n).map(|i| format!("v{i}"))))],
    )
    .unwrap()
}

fn reader(b: RecordBatch) -> RecordBatchIterator<std::vec::IntoIter<std::result::Result<RecordBatch, arrow_schema::ArrowError>>> {
    let s = b.schema();
    RecordBatchIterator::new(vec![Ok(b)].into_iter(), s)
}

fn base_of(ds: &Dataset) -> Path {
    let parts: Vec<_> = ds.manifest_location().path.parts().collect();
    Path::from_iter(parts[..parts.len() - 2].iter().cloned())
}

fn flags_of_contents(m: &Manifest) -> (u64, u64) {
    let mut r = 0;
    let mut w = 0;
    if m.fragments.iter().any(|f| f.deletion_file.is_some()) {
        r |= FLAG_DELETION_FILES;
        w |= FLAG_DELETION_FILES;
    }
    if m.fragments.iter().any(|f| f.row_id_meta.is_some()) {
        r |= FLAG_STABLE_ROW_IDS;
        w |= FLAG_STABLE_ROW_IDS;
    }
    if !m.config.is_empty() {
        w |= FLAG_TABLE_CONFIG;
    }
    if !m.base_paths.is_empty() {
        r |= FLAG_BASE_PATHS;
        w |= FLAG_BASE_PATHS;
    }
    (r, w)
}

fn check_manifest(m: &Manifest, stable_ids: bool, version: LanceFileVersion, step: &str) -> Result<(), Fail> {
    let (mut r, mut w) = flags_of_contents(m);
    if stable_ids {
        r |= FLAG_STABLE_ROW_IDS;
        w |= FLAG_STABLE_ROW_IDS;
    }
    let mut gw = m.writer_feature_flags & !FLAG_DISABLE_TRANSACTION_FILE;
    if CORRUPT_FLAGS.load(Ordering::Relaxed) {
        gw &= !FLAG_DELETION_FILES;
    }
    if m.reader_feature_flags != r {
        return Err((format!("history:reader-flags-differ:bits-{:#x}:after-{step}", m.reader_feature_flags ^ r), format!("reader flags {} vs contents {r}", m.reader_feature_flags)));
    }
    if gw != w {
        return Err((format!("history:writer-flags-differ:bits-{:#x}:after-{step}", gw ^ w), format!("writer flags {gw} vs contents {w}")));
    }
    // storage version: the manifest's and every data file's
    let want = version.resolve();
    match m.data_storage_format.lance_file_version() {
        Ok(v) if v == want => {}
        other => return Err((format!("history:storage-version-differs:after-{step}"), format!("{other:?} vs {want:?}"))),
    }
    let nums = want.to_numbers();
    for f in m.fragments.iter() {
        for df in &f.files {
            if (df.file_major_version, df.file_minor_version) != nums {
                return Err((
                    format!("history:data-file-version-differs:after-{step}"),
                    format!("{} carries {}.{}, table {}.{}", df.path, df.file_major_version, df.file_minor_version, nums.0, nums.1),
                ));
            }
        }
    }
    Ok(())
}

async fn history_case(report: &Report, sink: &Sink<'_>, i: u64) {
    let mut rng = Rng::for_case(report.seed, i);
    let world = World::memory();
    let actor = Actor::new(world.actor(0));
    let uri = format!("memory://c37-{i}");
    let stable = rng.bool();
    let version = *rng.pick(&[LanceFileVersion::V2_0, LanceFileVersion::V2_1, LanceFileVersion::Stable, LanceFileVersion::Next, LanceFileVersion::V2_0]);
    let mut params = actor.write_params(WriteMode::Create);
    params.enable_stable_row_ids = stable;
    params.data_storage_version = Some(version);
    params.max_rows_per_file = 20;
    params.enable_v2_manifest_paths = rng.bool();
    let mut next_id = 40i64;
    let mut ds = match Dataset::write(reader(batch(0..40)), uri.as_str(), Some(params)).await {
        Ok(d) => d,
        Err(e) => {
            report.harness_error(&format!("create failed: {e}"));
            return;
        }
    };
    let mut steps = vec!["create".to_string()];
    let mut fails: Vec<Fail> = vec![];
    if let Err(f) = check_manifest(ds.manifest(), stable, version, "create") {
        fails.push(f);
    }
    let mut seen_del = false;
    let mut seen_cfg = false;
    for _ in 0..rng.urange(3, 7) {
        let op = rng.below(5);
        let (name, res): (&str, lance::Result<()>) = match op {
            0 => {
                let n = rng.range(1, 30);
                let b = batch(next_id..next_id + n);
                next_id += n;
                let mut p = actor.write_params(WriteMode::Append);
                p.max_rows_per_file = 20;
                ("append", ds.append(reader(b), Some(p)).await)
            }
            1 => {
                let lo = rng.range(0, next_id);
                let hi = lo + rng.range(0, 15);
                ("delete", ds.delete(&format!("id >= {lo} AND id < {hi}")).await)
            }
            2 => {
                let opts = CompactionOptions { target_rows_per_fragment: 50, materialize_deletions: true, materialize_deletions_threshold: 0.0, ..Default::default() };
                ("compact", compact_files(&mut ds, opts, None).await.map(|_| ()))
            }
            3 => ("update_config", ds.update_config([("k1", "v1")]).await.map(|_| ())),
            _ => ("delete_config", ds.delete_config_keys(&["k1"]).await),
        };
        steps.push(name.to_string());
        if let Err(e) = res {
            fails.push((format!("history:operation-failed:{name}"), e.to_string()));
            break;
        }
        seen_del |= ds.manifest().fragments.iter().any(|f| f.deletion_file.is_some());
        seen_cfg |= !ds.manifest().config.is_empty();
        if let Err(f) = check_manifest(ds.manifest(), stable, version, name) {
            fails.push(f);
            break;
        }
        // what a fresh reader sees is the same manifest
        match actor.fresh_session().open(&uri).await {
            Ok(d2) => {
                if d2.manifest().reader_feature_flags != ds.manifest().reader_feature_flags || d2.manifest().writer_feature_flags != ds.manifest().writer_feature_flags {
                    fails.push((format!("history:reopened-flags-differ:after-{name}"), String::new()));
                    break;
                }
            }
            Err(e) => {
                fails.push((format!("history:reopen-failed:after-{name}"), e.to_string()));
                break;
            }
        }
        report.count("history_steps_checked", 1);
    }
    report.case((seen_del || seen_cfg || stable).then(|| hash_of(&("hist", &steps, stable, version.to_string()))));
    if i % 37 == 3 && report.want_sample() {
        report.sample(json!({"part": "history", "case": i, "steps": steps, "stable_row_ids": stable, "storage_version": version.to_string(),
            "final_flags": [ds.manifest().reader_feature_flags, ds.manifest().writer_feature_flags]}));
    }
    for (sig, what) in fails {
        sink.violation_lazy(&sig, &what, || json!({"seed": report.seed as i64, "case": i, "steps": steps, "stable_row_ids": stable, "storage_version": version.to_string(), "detail": what,
            "replay": format!("e_sets C37 --seed {} --case {i}", report.seed as i64)}));
    }
}

/// A table whose newest manifest carries an unknown bit.
async fn unknown_bit_case(report: &Report, sink: &Sink<'_>, i: u64, bit: u32, reader_side: bool) {
    let world = World::memory();
    let actor = Actor::new(world.actor(0));
    let uri = format!("memory://c37-bit-{i}");
    let mut params = actor.write_params(WriteMode::Create);
    params.enable_v2_manifest_paths = i % 2 == 0;
    let ds = match Dataset::write(reader(batch(0..10)), uri.as_str(), Some(params)).await {
        Ok(d) => d,
        Err(e) => {
            report.harness_error(&format!("create failed: {e}"));
            return;
        }
    };
    let mut m = ds.manifest().clone();
    m.version += 1;
    // offsets of sections inside the *old* file do not apply to the new one
    m.transaction_section = None;
    m.index_section = None;
    if reader_side {
        m.reader_feature_flags |= 1u64 << bit;
    } else {
        m.writer_feature_flags |= 1u64 << bit;
    }
    let base = base_of(&ds);
    let path = ds.manifest_location().naming_scheme.manifest_path(&base, m.version);
    if let Err(e) = write_manifest_file_to_path(ds.object_store(), &mut m, None, &path, None).await {
        report.harness_error(&format!("cannot write the doctored manifest: {e}"));
        return;
    }
    let fresh = actor.fresh_session();
    let opened = fresh.open(&uri).await;
    let wit = |d: &str| json!({"seed": report.seed as i64, "case": i, "unknown_bit": bit, "side": if reader_side { "reader" } else { "writer" }, "detail": d});
    if reader_side {
        match opened {
            Err(e) if e.to_string().contains("cannot be read by this version") => {}
            Err(e) => sink.violation_lazy("dataset:unknown-reader-bit:open-fails-for-another-reason", &e.to_string(), || wit(&e.to_string())),
            Ok(d) => {
                if d.manifest().version == m.version {
                    sink.violation_lazy("dataset:unknown-reader-bit:open-succeeds", &format!("bit {bit}: opened version {} with reader flags {}", d.manifest().version, d.manifest().reader_feature_flags), || wit(""));
                } else {
                    report.harness_error("the doctored manifest was not picked up as latest");
                }
            }
        }
        // older versions stay readable
        if let Err(e) = fresh.open_version(&uri, m.version - 1).await {
            sink.violation_lazy("dataset:unknown-reader-bit:older-version-unreadable", &e.to_string(), || wit(&e.to_string()));
        }
    } else {
        let mut d = match opened {
            Ok(d) if d.manifest().version == m.version => d,
            Ok(_) => {
                report.harness_error("the doctored manifest was not picked up as latest");
                return;
            }
            Err(e) => {
                sink.violation_lazy("dataset:unknown-writer-bit:read-fails", &e.to_string(), || wit(&e.to_string()));
                return;
            }
        };
        match d.count_rows(None).await {
            Ok(10) => {}
            other => sink.violation_lazy("dataset:unknown-writer-bit:read-fails", &format!("count_rows = {other:?}"), || wit("")),
        }
        // every kind of write must be refused and leave no new version
        let kind = i % 5;
        let (name, res): (&str, lance::Result<()>) = match kind {
            0 => ("append", d.append(reader(batch(100..105)), Some(fresh.write_params(WriteMode::Append))).await),
            1 => ("append-by-uri", Dataset::write(reader(batch(100..105)), uri.as_str(), Some(fresh.write_params(WriteMode::Append))).await.map(|_| ())),
            2 => ("delete", d.delete("id < 3").await),
            3 => ("update_config", d.update_config([("k", "v")]).await.map(|_| ())),
            _ => {
                let opts = CompactionOptions { target_rows_per_fragment: 50, ..Default::default() };
                // make compaction have something to do
                ("overwrite", Dataset::write(reader(batch(0..5)), uri.as_str(), Some(fresh.write_params(WriteMode::Overwrite))).await.map(|_| ()).and(Ok(())).or_else(|e| { let _ = &opts; Err(e) }))
            }
        };
        let latest = fresh.fresh_session().open(&uri).await.map(|x| x.manifest().version).unwrap_or(0);
        match res {
            Err(_) if latest == m.version => {}
            Err(e) => sink.violation_lazy(&format!("dataset:unknown-writer-bit:{name}-failed-but-committed"), &e.to_string(), || wit(&e.to_string())),
            Ok(()) => sink.violation_lazy(
                &format!("dataset:unknown-writer-bit:{name}-accepted"),
                &format!("writer flags {} (bit {bit} unknown): {name} succeeded, latest version now {latest}", m.writer_feature_flags),
                || wit(""),
            ),
        }
    }
    report.count("doctored_manifests", 1);
    report.case(Some(hash_of(&("bit", bit, reader_side, i % 5))));
}

thread_local! {
    static RT: tokio::runtime::Runtime = tokio::runtime::Builder::new_current_thread().enable_all().build().unwrap();
}

fn dataset_case(report: &Report, sink: &Sink, i: u64) {
    RT.with(|rt| {
        rt.block_on(async {
            if i % 3 == 0 {
                let bit = 6 + ((i / 3) % 58) as u32;
                unknown_bit_case(report, sink, i, bit, (i / 3) % 2 == 0).await
            } else {
                history_case(report, sink, i).await
            }
        })
    });
}

fn selftest(args: &Args) -> i32 {
    quiet_panics();
    let mut a = args.clone();
    a.prop = "C37-selftest".into();
    std::env::set_var("VERIF_EVIDENCE_OUT", "/dev/null");
    let report = Report::new(&a, "exploration", "selftest", (60, 60));
    let base = Sink::collecting();
    for i in 1..40 {
        dataset_case(&report, &base, i);
    }
    let sink = Sink::collecting();
    CORRUPT_FLAGS.store(true, Ordering::Relaxed);
    for i in 1..40 {
        dataset_case(&report, &sink, i);
    }
    CORRUPT_FLAGS.store(false, Ordering::Relaxed);
    let new: Vec<String> = sink.signatures().into_iter().filter(|s| !base.signatures().contains(s)).collect();
    println!("SELFTEST corrupted-writer-flags new signatures={new:?}");
    if new.iter().any(|s| s.starts_with("history:writer-flags-differ")) {
        println!("SELFTEST C37 ok");
        0
    } else {
        println!("SELFTEST C37 FAILED");
        2
    }
}

pub fn run(args: &Args) -> i32 {
    if is_selftest(args) {
        return selftest(args);
    }
    quiet_panics();
    arm_watchdog(args.tier.pick(300, 1500));
    let rule = "Enumerated completely: every flag word over the 6 known bits and the first two unknown bits (0..256), every unknown bit 6..63 alone and with every combination of known bits, u64::MAX; every LanceFileVersion variant, documented alias/concrete string, rejected strings and the (major,minor) grid 0..5 x 0..5. Seeded random: apply_feature_flags on generated manifests (deletion files, row id metadata on none/all/some fragments, config, base paths, stale previous flags, both switches); dataset level on a monitored memory store: manifests rewritten with one unknown reader or writer bit (open must fail / reads work and append, append-by-uri, delete, update_config, overwrite must be refused without a new version), and random histories (append, delete, compaction materialising deletions, update/delete config; stable row ids on/off; storage version 2.0/2.1/stable/next) after every step of which the flags equal the function of the manifest contents and every data file carries the table's storage version. Non-trivial history: deletion files, config or stable row ids occurred.";
    let report = Report::new(args, "exploration", rule, (45, 480)).with_min_nontrivial(50);
    let sink = Sink::to_report(&report);
    if let Some(c) = args.extra.get("case").and_then(|c| c.parse::<u64>().ok()) {
        dataset_case(&report, &sink, c);
        sink.flush();
        return report.finish();
    }
    flag_words(&report, &sink);
    file_versions(&report, &sink);
    report.exhaustive(true);
    for i in 0..args.tier.pick(20_000u64, 500_000) {
        apply_case(&report, &sink, i);
    }
    report.set("t_after_pure_s", json!((report.elapsed_s() * 10.0).round() / 10.0));
    let max_cases = args.tier.pick(20_000u64, 2_000_000);
    fan_out(n_threads(), 1, max_cases, &|| report.time_left(), &|i| dataset_case(&report, &sink, i));
    report.assume("the set of known bits is the one of feature_flags.rs (bits 1..32, FLAG_UNKNOWN = 64); docs/src/format/table/versioning.md still says 'bit values 32 and above are unknown'");
    report.assume("FLAG_DISABLE_TRANSACTION_FILE (32) in writer flags is not compared at dataset level (it depends on a commit option, not on contents)");
    sink.flush();
    report.finish()
}
