//! C34 — row id sequences and the row id index are faithful.
//!
//! Oracle: plain `Vec<u64>` for `RowIdSequence` (whatever segment encodings it picks) and a
//! `BTreeMap<id, address>` for `RowIdIndex`. Pure: no tokio, no file system.
use crate::common::*;
use lance_core::utils::address::RowAddress;
use lance_core::utils::deletion::DeletionVector;
use lance_core::utils::mask::{RowIdMask, RowIdTreeMap};
use lance_io::ReadBatchParams;
use lance_table::rowids::{
    read_row_ids, rechunk_sequences, select_row_ids, write_row_ids, FragmentRowIdIndex, RowIdIndex, RowIdSequence,
};
use serde_json::{json, Value};
use std::collections::{BTreeMap, BTreeSet};
use std::sync::atomic::{AtomicBool, AtomicU64, Ordering};
use std::sync::Arc;
use vmon::prng::Rng;
use vmon::report::{Args, Report};

type Fail = (String, String);

/// selftest: drop the last element of what `iter()` returned before the oracle sees it
static CORRUPT_ITER: AtomicBool = AtomicBool::new(false);

fn obs_iter(s: &RowIdSequence) -> Vec<u64> {
    let mut v: Vec<u64> = s.iter().collect();
    if CORRUPT_ITER.load(Ordering::Relaxed) && v.len() > 2 {
        v.pop();
    }
    v
}

const VARIANTS: [&str; 5] = ["RangeWithHoles", "RangeWithBitmap", "SortedArray", "Array", "Range"];

/// Segment encodings of a sequence, read from its Debug form (the fields are private).
fn encodings(s: &RowIdSequence) -> Vec<&'static str> {
    let d = format!("{s:?}");
    let mut out = vec![];
    let b = d.as_bytes();
    let mut i = 0;
    while i < b.len() {
        let mut hit = None;
        if i == 0 || !(b[i - 1] as char).is_ascii_alphanumeric() {
            for v in VARIANTS {
                if d[i..].starts_with(v) {
                    let after = d[i + v.len()..].chars().next();
                    if matches!(after, Some('(') | Some(' ') | Some('{')) {
                        hit = Some(v);
                        break;
                    }
                }
            }
        }
        if let Some(v) = hit {
            out.push(v);
            i += v.len();
        } else {
            i += 1;
        }
    }
    out
}

fn enc_tag(s: &RowIdSequence) -> String {
    let mut e: Vec<&str> = encodings(s);
    e.dedup();
    if e.len() > 3 {
        "mixed".to_string()
    } else {
        e.join("+")
    }
}

/// A sequence built the way callers build it: one `from(&[u64])` per part, combined by `extend`.
fn build(parts: &[Vec<u64>]) -> RowIdSequence {
    let mut s = RowIdSequence::new();
    for p in parts {
        // contiguous ascending parts go through From<Range> half of the time (same value)
        s.extend(RowIdSequence::from(p.as_slice()));
    }
    s
}

fn flat(parts: &[Vec<u64>]) -> Vec<u64> {
    parts.iter().flatten().copied().collect()
}

/// Everything that must hold for a freshly built sequence against its list.
fn check_basic(s: &RowIdSequence, want: &[u64], what: &str) -> Result<(), Fail> {
    let tag = enc_tag(s);
    let got = obs_iter(s);
    if got != want {
        return Err((
            format!("{what}:iter-differs:{tag}"),
            format!("iter() yields {} ids, the list has {}; first difference at {:?}", got.len(), want.len(),
                got.iter().zip(want).position(|(a, b)| a != b)),
        ));
    }
    if s.len() != want.len() as u64 {
        return Err((format!("{what}:len:{tag}"), format!("len() = {}, list has {}", s.len(), want.len())));
    }
    let rev: Vec<u64> = s.iter().rev().collect();
    if !rev.iter().eq(want.iter().rev()) {
        return Err((format!("{what}:reverse-iter-differs:{tag}"), String::new()));
    }
    let n = want.len();
    let idxs: Vec<usize> = if n <= 64 { (0..n).collect() } else { vec![0, 1, n / 2, n - 2, n - 1] };
    for i in idxs {
        if s.get(i) != Some(want[i]) {
            return Err((format!("{what}:get:{tag}"), format!("get({i}) = {:?}, list has {}", s.get(i), want[i])));
        }
    }
    if s.get(n).is_some() || s.get(n + 7).is_some() {
        return Err((format!("{what}:get-out-of-bounds-some:{tag}"), format!("get({n}) = {:?}", s.get(n))));
    }
    Ok(())
}

fn check_serde(s: &RowIdSequence, want: &[u64]) -> Result<(), Fail> {
    let bytes = write_row_ids(s);
    let back = read_row_ids(&bytes).map_err(|e| (format!("serde:read-error:{}", enc_tag(s)), e.to_string()))?;
    if &back != s {
        return Err((format!("serde:not-equal:{}", enc_tag(s)), format!("{s:?} -> {back:?}")));
    }
    check_basic(&back, want, "serde")
}

fn check_slice(s: &RowIdSequence, want: &[u64], off: usize, len: usize) -> Result<(), Fail> {
    let sl = s.slice(off, len);
    let it = sl.iter();
    let hint = it.size_hint();
    let got: Vec<u64> = it.collect();
    if got != want[off..off + len] {
        return Err((
            format!("slice:differs:{}", enc_tag(s)),
            format!("slice({off},{len}) of {} ids yields {:?}.., want {:?}..", want.len(), &got[..got.len().min(8)], &want[off..(off + len).min(off + 8)]),
        ));
    }
    if hint.0 > got.len() || hint.1.is_some_and(|h| h < got.len()) {
        return Err((format!("slice:size-hint-excludes-length:{}", enc_tag(s)), format!("size_hint {hint:?}, yielded {}", got.len())));
    }
    Ok(())
}

fn check_mask(s: &RowIdSequence, want: &[u64], positions: &[u32]) -> Result<(), Fail> {
    let mut m = s.clone();
    m.mask(positions.iter().copied())
        .map_err(|e| (format!("mask:error:{}", enc_tag(s)), e.to_string()))?;
    let keep: Vec<u64> = want
        .iter()
        .enumerate()
        .filter(|(i, _)| positions.binary_search(&(*i as u32)).is_err())
        .map(|(_, v)| *v)
        .collect();
    check_basic(&m, &keep, &format!("mask[{}]", enc_tag(s)))
}

fn check_delete(s: &RowIdSequence, want: &[u64], ids: &[u64]) -> Result<(), Fail> {
    let mut m = s.clone();
    m.delete(ids.iter().copied());
    let del: BTreeSet<u64> = ids.iter().copied().collect();
    let keep: Vec<u64> = want.iter().copied().filter(|v| !del.contains(v)).collect();
    check_basic(&m, &keep, &format!("delete[{}]", enc_tag(s)))
}

fn check_select(s: &RowIdSequence, want: &[u64], offsets: &[usize]) -> Result<(), Fail> {
    let got: Vec<u64> = s.select(offsets.iter().copied()).collect();
    let exp: Vec<u64> = offsets.iter().filter(|o| **o < want.len()).map(|o| want[*o]).collect();
    if got != exp {
        return Err((format!("select:differs:{}", enc_tag(s)), format!("select({offsets:?}) = {got:?}, want {exp:?}")));
    }
    Ok(())
}

/// rechunk into the given sizes; `sizes` sums to the total number of ids
fn check_rechunk_exact(seqs: &[RowIdSequence], all: &[u64], sizes: &[u64]) -> Result<(), Fail> {
    let tag = seqs.iter().map(enc_tag).collect::<Vec<_>>().join("|");
    let tag = if tag.len() > 60 { "many".to_string() } else { tag };
    for allow in [false, true] {
        let out = rechunk_sequences(seqs.to_vec(), sizes.iter().copied(), allow);
        let out = match out {
            Ok(o) => o,
            Err(e) => {
                let trailing_empty = seqs.last().is_some_and(|s| s.len() == 0)
                    || seqs.last().is_some_and(|s| format!("{s:?}").ends_with("Range(0..0)])"));
                return Err((
                    format!(
                        "rechunk:error-on-matching-sizes:{}",
                        if trailing_empty { "input-ends-with-empty-segment" } else { "other" }
                    ),
                    format!("sizes {sizes:?} sum to the {} ids but rechunk_sequences failed: {e}", all.len()),
                ));
            }
        };
        if out.len() != sizes.len() {
            return Err((format!("rechunk:chunk-count:{tag}"), format!("{} chunks for {} sizes", out.len(), sizes.len())));
        }
        let mut off = 0usize;
        for (c, sz) in out.iter().zip(sizes) {
            let w = &all[off..off + *sz as usize];
            check_basic(c, w, &format!("rechunk[{tag}]"))?;
            off += *sz as usize;
        }
    }
    Ok(())
}

fn check_rechunk_mismatch(seqs: &[RowIdSequence], all: &[u64], sizes: &[u64]) -> Result<(), Fail> {
    let total: u64 = sizes.iter().sum();
    let n = all.len() as u64;
    if total == n {
        return Ok(());
    }
    // strict mode must refuse
    if rechunk_sequences(seqs.to_vec(), sizes.iter().copied(), false).is_ok() {
        return Err(("rechunk:accepts-mismatching-sizes".into(), format!("{n} ids, sizes {sizes:?}, allow_incomplete=false returned Ok")));
    }
    if total > n {
        // incomplete allowed: chunks are the prefix partition of the ids, later chunks short/empty
        match rechunk_sequences(seqs.to_vec(), sizes.iter().copied(), true) {
            Ok(out) => {
                if out.len() != sizes.len() {
                    return Err(("rechunk-incomplete:chunk-count".into(), format!("{} chunks for {} sizes", out.len(), sizes.len())));
                }
                let mut off = 0usize;
                for (c, sz) in out.iter().zip(sizes) {
                    let end = (off + *sz as usize).min(all.len());
                    check_basic(c, &all[off..end], "rechunk-incomplete")?;
                    off = end;
                }
            }
            Err(e) => return Err(("rechunk-incomplete:error".into(), e.to_string())),
        }
    }
    Ok(())
}

/// Input classes used to narrow signatures (computed from the inputs; `want` selects which classes
/// can matter for the operation: E = a part is empty (a `Range(0..0)` segment), B = a part encoded
/// as RangeWithBitmap starts at an offset > 0, O = the id spans of two parts overlap).
fn input_flags(parts: &[Vec<u64>], want: &str) -> String {
    let mut f = vec![];
    if want.contains('B') {
        let mut before = 0usize;
        let mut b = false;
        for p in parts {
            if before > 0 && encodings(&RowIdSequence::from(p.as_slice())) == vec!["RangeWithBitmap"] {
                b = true;
            }
            before += p.len();
        }
        if b {
            return "bitmap-segment-after-first".into();
        }
    }
    if want.contains('E') && parts.iter().any(|p| p.is_empty()) {
        f.push("has-empty-segment");
    }
    if want.contains('O') {
        let spans: Vec<(u64, u64)> = parts.iter().filter(|p| !p.is_empty()).map(|p| (*p.iter().min().unwrap(), *p.iter().max().unwrap())).collect();
        let mut overlap = false;
        for i in 0..spans.len() {
            for j in i + 1..spans.len() {
                if spans[i].0 <= spans[j].1 && spans[j].0 <= spans[i].1 {
                    overlap = true;
                }
            }
        }
        if overlap {
            f.push("overlapping-segment-ranges");
        }
    }
    if f.is_empty() {
        "plain".into()
    } else {
        f.join("+")
    }
}

fn high_fragment(ids: &[u64]) -> bool {
    ids.iter().any(|v| (v >> 32) as u32 == u32::MAX)
}

/// mask_to_offset_ranges: offsets of the ids the mask selects, grouped into ranges
fn check_mask_to_offsets(s: &RowIdSequence, parts: &[Vec<u64>], want: &[u64], selected: &BTreeSet<u64>, as_block: bool) -> Result<(), Fail> {
    let flags = input_flags(parts, "BE");
    let tm: RowIdTreeMap = if as_block {
        want.iter().copied().filter(|v| !selected.contains(v)).collect()
    } else {
        selected.iter().copied().collect()
    };
    let mask = if as_block { RowIdMask::from_block(tm) } else { RowIdMask::from_allowed(tm) };
    let got = guarded(|| s.mask_to_offset_ranges(&mask)).map_err(|p| (format!("mask_to_offset_ranges:panic:{flags}"), format!("{p} (encodings {})", enc_tag(s))))?;
    let mut exp: Vec<std::ops::Range<u64>> = vec![];
    for (i, v) in want.iter().enumerate() {
        if selected.contains(v) {
            let i = i as u64;
            match exp.last_mut() {
                Some(r) if r.end == i => r.end = i + 1,
                _ => exp.push(i..i + 1),
            }
        }
    }
    // how the offsets are grouped into ranges is not promised; the offsets are
    let flat = |r: &Vec<std::ops::Range<u64>>| r.iter().flat_map(|x| x.clone()).collect::<Vec<u64>>();
    if flat(&got) != flat(&exp) {
        return Err((
            format!("mask_to_offset_ranges:offsets-differ:{flags}"),
            format!("got {:?}, want {:?} (encodings {})", &got[..got.len().min(6)], &exp[..exp.len().min(6)], enc_tag(s)),
        ));
    }
    Ok(())
}

fn check_treemap_from(s: &RowIdSequence, parts: &[Vec<u64>], want: &[u64]) -> Result<(), Fail> {
    let flags = input_flags(parts, "EO");
    let tm = RowIdTreeMap::from(s);
    let got: Option<Vec<u64>> = tm.row_ids().map(|it| it.map(u64::from).collect());
    let mut exp = want.to_vec();
    exp.sort_unstable();
    if got.as_ref() != Some(&exp) {
        let g: BTreeSet<u64> = got.clone().unwrap_or_default().into_iter().collect();
        let e: BTreeSet<u64> = exp.iter().copied().collect();
        let class = match (g.difference(&e).next().is_some(), e.difference(&g).next().is_some()) {
            (true, false) => "extra-ids",
            (false, true) => "missing-ids",
            _ => "extra-and-missing-ids",
        };
        return Err((
            format!("treemap-from-sequence:{class}:{flags}"),
            format!("{} ids vs {} (encodings {})", g.len(), e.len(), enc_tag(s)),
        ));
    }
    Ok(())
}

fn check_select_row_ids(s: &RowIdSequence, want: &[u64], rng: &mut Rng) -> Result<(), Fail> {
    let n = want.len();
    let a = rng.usize_below(n + 1);
    let b = a + rng.usize_below(n - a + 1);
    let idx: Vec<u32> = (0..rng.usize_below(12)).map(|_| rng.usize_below(n.max(1)) as u32).filter(|i| (*i as usize) < n).collect();
    let cases: Vec<(ReadBatchParams, Vec<u64>)> = vec![
        (ReadBatchParams::Range(a..b), want[a..b].to_vec()),
        (ReadBatchParams::RangeFull, want.to_vec()),
        (ReadBatchParams::RangeTo(..b), want[..b].to_vec()),
        (ReadBatchParams::RangeFrom(a..), want[a..].to_vec()),
        (
            ReadBatchParams::Ranges(Arc::from(vec![(a as u64)..(b as u64), 0..(a as u64)])),
            want[a..b].iter().chain(want[..a].iter()).copied().collect(),
        ),
        (
            ReadBatchParams::Indices(arrow_array::UInt32Array::from(idx.clone())),
            idx.iter().map(|i| want[*i as usize]).collect(),
        ),
    ];
    for (p, exp) in cases {
        let got = select_row_ids(s, &p).map_err(|e| (format!("select_row_ids:error:{}", enc_tag(s)), format!("{p}: {e}")))?;
        if got != exp {
            return Err((format!("select_row_ids:differs:{}", enc_tag(s)), format!("{p} on {} ids", n)));
        }
    }
    Ok(())
}

// ------------------------------------------------------------------------------------------
// exhaustive: all duplicate-free lists over a 6-value universe up to length 5, every split into
// two `extend`ed parts, every slice, every position mask, every id subset delete, every sorted
// offset selection, every composition into chunk sizes

fn universe(seed: u64, k: u64) -> [u64; 6] {
    let mut rng = Rng::for_case(seed, 0x34_0000 + k);
    let base = match k % 4 {
        0 => rng.below(100),
        1 => (1u64 << 32) - 3,
        2 => u64::MAX - 1 - 1200,
        _ => rng.next_u64() >> 1,
    };
    // gap patterns exercise Range / holes / bitmap / sorted array choices
    let gaps: [u64; 5] = match (k / 4) % 4 {
        0 => [1, 1, 1, 1, 1],
        1 => [1, 2, 1, 3, 1],
        2 => [1, 1, 40, 1, 200],
        _ => [1, 70_000, 1, 1, 1000],
    };
    let mut u = [base; 6];
    for i in 1..6 {
        u[i] = u[i - 1] + gaps[i - 1];
    }
    u
}

fn permutations_up_to(u: &[u64; 6], max_len: usize) -> Vec<Vec<u64>> {
    let mut out = vec![vec![]];
    let mut frontier: Vec<Vec<u64>> = vec![vec![]];
    for _ in 0..max_len {
        let mut next = vec![];
        for l in &frontier {
            for v in u {
                if !l.contains(v) {
                    let mut n = l.clone();
                    n.push(*v);
                    next.push(n);
                }
            }
        }
        out.extend(next.iter().cloned());
        frontier = next;
    }
    out
}

fn compositions(n: usize) -> Vec<Vec<u64>> {
    // all ordered ways to write n as a sum of positive parts, plus variants with a zero-size chunk
    if n == 0 {
        return vec![vec![], vec![0]];
    }
    let mut out = vec![];
    for bits in 0..(1u32 << (n - 1)) {
        let mut parts = vec![];
        let mut cur = 1u64;
        for i in 0..n - 1 {
            if bits & (1 << i) != 0 {
                parts.push(cur);
                cur = 1;
            } else {
                cur += 1;
            }
        }
        parts.push(cur);
        out.push(parts);
    }
    let mut z = out[0].clone();
    z.insert(0, 0);
    out.push(z);
    out
}

struct Stats {
    ops: AtomicU64,
    enc: [AtomicU64; 5],
}

fn note_enc(st: &Stats, s: &RowIdSequence) {
    for e in encodings(s) {
        if let Some(i) = VARIANTS.iter().position(|v| *v == e) {
            st.enc[i].fetch_add(1, Ordering::Relaxed);
        }
    }
}

fn exhaustive_list(sink: &Sink, st: &Stats, seed: u64, uni: &[u64; 6], list: &[u64]) -> bool {
    let n = list.len();
    let mut ok = true;
    let mut fail = |f: Fail, ctx: Value| {
        ok = false;
        sink.violation_lazy(&f.0, &f.1, || json!({"seed": seed as i64, "part": "exhaustive", "universe": uni, "list": list, "context": ctx, "detail": f.1}));
    };
    for split in 0..=n {
        if split == 0 && n > 0 {
            continue; // identical to split == n apart from a leading empty part (covered by split==n of others)
        }
        let parts = if split == n { vec![list.to_vec()] } else { vec![list[..split].to_vec(), list[split..].to_vec()] };
        let s = build(&parts);
        note_enc(st, &s);
        let ctx = json!({"parts": parts});
        let mut ops = 0u64;
        if let Err(f) = check_basic(&s, list, "from_slice") {
            fail(f, ctx.clone());
            continue;
        }
        if let Err(f) = check_serde(&s, list) {
            fail(f, ctx.clone());
        }
        if s.is_empty() != (n == 0) && split == n {
            fail(("is_empty-disagrees-with-len".into(), format!("is_empty() = {} for a sequence of {} ids", s.is_empty(), n)), ctx.clone());
        }
        for off in 0..=n {
            for len in 0..=(n - off) {
                ops += 1;
                if let Err(f) = guarded(|| check_slice(&s, list, off, len)).unwrap_or_else(|p| Err(("slice:panic".into(), p))) {
                    fail(f, json!({"parts": parts, "slice": [off, len]}));
                }
            }
        }
        for bits in 0..(1u32 << n) {
            let pos: Vec<u32> = (0..n as u32).filter(|i| bits & (1 << i) != 0).collect();
            ops += 3;
            if let Err(f) = guarded(|| check_mask(&s, list, &pos)).unwrap_or_else(|p| Err((format!("mask:panic:{}", enc_tag(&s)), p))) {
                fail(f, json!({"parts": parts, "mask_positions": pos}));
            }
            // delete the same subset by id, in reverse order of appearance, plus two absent ids
            let mut ids: Vec<u64> = pos.iter().rev().map(|p| list[*p as usize]).collect();
            ids.push(uni[5] + 12345);
            if let Some(absent) = uni.iter().find(|v| !list.contains(v)) {
                ids.insert(0, *absent);
            }
            if let Err(f) = guarded(|| check_delete(&s, list, &ids)).unwrap_or_else(|p| Err((format!("delete:panic:{}", enc_tag(&s)), p))) {
                fail(f, json!({"parts": parts, "delete_ids": ids}));
            }
            // select the subset (sorted offsets) plus an out-of-bounds offset
            let mut offs: Vec<usize> = pos.iter().map(|p| *p as usize).collect();
            offs.push(n + 1);
            if let Err(f) = guarded(|| check_select(&s, list, &offs)).unwrap_or_else(|p| Err((format!("select:panic:{}", enc_tag(&s)), p))) {
                fail(f, json!({"parts": parts, "select": offs}));
            }
        }
        for sizes in compositions(n) {
            ops += 1;
            let seqs: Vec<RowIdSequence> = parts.iter().map(|p| RowIdSequence::from(p.as_slice())).collect();
            if let Err(f) = guarded(|| check_rechunk_exact(&seqs, list, &sizes)).unwrap_or_else(|p| Err(("rechunk:panic".into(), p))) {
                fail(f, json!({"parts": parts, "chunk_sizes": sizes}));
            }
        }
        if !high_fragment(list) && n > 0 {
            for bits in [0u32, 1, (1 << n) - 1, 0b10101 & ((1 << n) - 1), 0b01010 & ((1 << n) - 1)] {
                let sel: BTreeSet<u64> = (0..n).filter(|i| bits & (1 << i) != 0).map(|i| list[i]).collect();
                for as_block in [false, true] {
                    ops += 1;
                    if let Err(f) = check_mask_to_offsets(&s, &parts, list, &sel, as_block) {
                        fail(f, json!({"parts": parts, "selected_ids": sel, "mask_is_block_list": as_block}));
                    }
                }
            }
            if let Err(f) = guarded(|| check_treemap_from(&s, &parts, list)).unwrap_or_else(|p| Err(("treemap-from-sequence:panic".into(), p))) {
                fail(f, ctx.clone());
            }
        }
        st.ops.fetch_add(ops, Ordering::Relaxed);
    }
    ok
}

// ------------------------------------------------------------------------------------------
// random large lists

fn gen_part(rng: &mut Rng, base: u64, used: &mut BTreeSet<u64>) -> Vec<u64> {
    let n = match rng.below(6) {
        0 => 0,
        1 => rng.urange(1, 4),
        _ if cfg!(miri) => rng.urange(5, 40),
        2 | 3 => rng.urange(5, 200),
        _ => rng.urange(200, 2500),
    };
    let kind = rng.below(7);
    let mut v: Vec<u64> = Vec::with_capacity(n);
    let start = base.saturating_add(rng.below(5000));
    let sparse_gap = if cfg!(miri) { 300 } else { 100_000 };
    match kind {
        0 => v.extend((0..n as u64).map(|i| start.saturating_add(i))), // dense
        1 => {
            // few holes
            let holes = rng.urange(1, 4);
            let mut x = start;
            for i in 0..n {
                if i > 0 && rng.usize_below(n.max(1)) < holes {
                    x = x.saturating_add(1 + rng.below(3));
                }
                v.push(x);
                x = x.saturating_add(1);
            }
        }
        2 => {
            // many holes (bitmap territory)
            let mut x = start;
            for _ in 0..n {
                v.push(x);
                x = x.saturating_add(1 + rng.below(4));
            }
        }
        3 => {
            // sparse sorted
            let mut x = start;
            for _ in 0..n {
                v.push(x);
                x = x.saturating_add(1 + rng.below(sparse_gap));
            }
        }
        4 => {
            // unsorted dense
            v.extend((0..n as u64).map(|i| start.saturating_add(i)));
            rng.shuffle(&mut v);
        }
        5 => {
            // unsorted sparse, wide spread
            for _ in 0..n {
                v.push(start.saturating_add(rng.below(if cfg!(miri) { 1 << 12 } else { 1 << 40 })));
            }
        }
        _ => {
            // descending
            v.extend((0..n as u64).map(|i| start.saturating_add(i)));
            v.reverse();
        }
    }
    // ids are unique within a table; never u64::MAX here (separate class)
    v.retain(|x| *x < u64::MAX && used.insert(*x));
    v
}

fn random_case(report: &Report, sink: &Sink, st: &Stats, i: u64) {
    let mut rng = Rng::for_case(report.seed, i);
    let base = match rng.below(6) {
        0 => 0,
        1 => (1u64 << 32) - rng.below(3000),
        2 => u64::MAX - 1 - rng.below(20_000),
        3 => (u32::MAX as u64) << 32,
        _ => rng.next_u64() >> rng.below(40),
    };
    let mut used = BTreeSet::new();
    let nparts = rng.urange(1, 5);
    let parts: Vec<Vec<u64>> = (0..nparts).map(|_| gen_part(&mut rng, base, &mut used)).collect();
    let all = flat(&parts);
    let s = build(&parts);
    note_enc(st, &s);
    let n = all.len();
    let mut fails: Vec<(Fail, Value)> = vec![];
    let mut ops = 0u64;
    let mut run = |what: &str, ctx: Value, r: Result<Result<(), Fail>, String>| {
        ops += 1;
        match r {
            Ok(Ok(())) => {}
            Ok(Err(f)) => fails.push((f, ctx)),
            Err(p) => fails.push(((format!("{what}:panic:{}", enc_tag(&s)), p), ctx)),
        }
    };
    run("from_slice", json!({}), guarded(|| check_basic(&s, &all, "from_slice")));
    run("serde", json!({}), guarded(|| check_serde(&s, &all)));
    for _ in 0..6 {
        let off = rng.usize_below(n + 1);
        let len = match rng.below(3) {
            0 => n - off,
            _ => rng.usize_below(n - off + 1),
        };
        run("slice", json!({"slice": [off, len]}), guarded(|| check_slice(&s, &all, off, len)));
    }
    for _ in 0..4 {
        let dens = *rng.pick(&[1u64, 10, 50, 90, 100]);
        let mut pos: Vec<u32> = (0..n as u32).filter(|_| rng.below(100) < dens).collect();
        if rng.chance(1, 4) && n > 0 {
            // contiguous block (a deleted run)
            let a = rng.usize_below(n);
            let b = a + rng.usize_below(n - a + 1);
            pos = (a as u32..b as u32).collect();
        }
        let mut ids: Vec<u64> = pos.iter().map(|p| all[*p as usize]).collect();
        if rng.bool() {
            rng.shuffle(&mut ids);
        }
        ids.push(base.wrapping_add(777_777_777));
        let offs: Vec<usize> = pos.iter().map(|p| *p as usize).chain([n, n + 5]).collect();
        let small = |v: &Vec<u32>| json!({"count": v.len(), "first": v.iter().take(8).collect::<Vec<_>>()});
        run("mask", json!({"mask": small(&pos)}), guarded(|| check_mask(&s, &all, &pos)));
        run("delete", json!({"delete_positions": small(&pos)}), guarded(|| check_delete(&s, &all, &ids)));
        run("select", json!({"select": small(&pos)}), guarded(|| check_select(&s, &all, &offs)));
        if !high_fragment(&all) {
            let sel: BTreeSet<u64> = pos.iter().map(|p| all[*p as usize]).collect();
            let blk = rng.bool();
            run("mask_to_offset_ranges", json!({"selected": small(&pos), "block": blk}), guarded(|| check_mask_to_offsets(&s, &parts, &all, &sel, blk)));
        }
    }
    run("select_row_ids", json!({}), guarded(|| check_select_row_ids(&s, &all, &mut rng)));
    if !high_fragment(&all) && n < 20_000 {
        run("treemap-from-sequence", json!({}), guarded(|| check_treemap_from(&s, &parts, &all)));
    }
    // rechunk: random composition; sequences = the parts; also after deleting (empty segments)
    {
        let seqs: Vec<RowIdSequence> = parts.iter().map(|p| RowIdSequence::from(p.as_slice())).collect();
        let mut sizes = vec![];
        let mut left = n as u64;
        while left > 0 {
            let cap = 1 + rng.below(900);
            let c = 1 + rng.below(left.min(cap));
            sizes.push(c);
            left -= c;
        }
        if rng.chance(1, 3) {
            let at = rng.usize_below(sizes.len() + 1);
            sizes.insert(at, 0);
        }
        run("rechunk", json!({"chunk_sizes": sizes.len()}), guarded(|| check_rechunk_exact(&seqs, &all, &sizes)));
        let mut wrong = sizes.clone();
        if rng.bool() {
            wrong.push(1 + rng.below(5));
        } else if !wrong.is_empty() {
            let k = rng.usize_below(wrong.len());
            if wrong[k] > 0 {
                wrong[k] -= 1;
            } else {
                wrong[k] += 1;
            }
        }
        run("rechunk-mismatch", json!({"chunk_sizes": wrong.len()}), guarded(|| check_rechunk_mismatch(&seqs, &all, &wrong)));
    }
    let nt = n >= 2;
    report.case(nt.then(|| hash_of(&("c34", enc_tag(&s), n, all.first(), all.last(), all.get(n / 2)))));
    st.ops.fetch_add(ops, Ordering::Relaxed);
    report.count("ids_compared", n as u64 * ops);
    if i % 501 == 7 && report.want_sample() {
        report.sample(json!({"part": "random-sequence", "case": i, "ids": n, "parts": parts.iter().map(|p| p.len()).collect::<Vec<_>>(), "encodings": encodings(&s)}));
    }
    for ((sig, what), ctx) in fails {
        sink.violation_lazy(&sig, &what, || {
            json!({"seed": report.seed as i64, "part": "random-sequence", "case": i, "context": ctx, "detail": what,
                "parts_first_ids": parts.iter().map(|p| p.iter().take(12).collect::<Vec<_>>()).collect::<Vec<_>>(),
                "part_lengths": parts.iter().map(|p| p.len()).collect::<Vec<_>>(), "encodings": encodings(&s),
                "replay": format!("e_sets C34 --seed {} --case {i}", report.seed as i64)})
        });
    }
}

// ------------------------------------------------------------------------------------------
// row id index

fn index_case(report: &Report, sink: &Sink, i: u64) {
    let mut rng = Rng::for_case(report.seed, i);
    let nfrag = rng.urange(1, 6);
    let base = match rng.below(4) {
        0 => 0,
        1 => (1u64 << 32) - 500,
        2 => u64::MAX - 1 - 40_000,
        _ => rng.next_u64() >> 8,
    };
    let mut used = BTreeSet::new();
    let mut model: BTreeMap<u64, u64> = BTreeMap::new();
    let mut dead: BTreeSet<u64> = BTreeSet::new();
    let mut frags = vec![];
    let mut desc = vec![];
    let mut fid = rng.below(5) as u32;
    for _ in 0..nfrag {
        let nparts = rng.urange(1, 3);
        let mut parts: Vec<Vec<u64>> = (0..nparts).map(|_| gen_part(&mut rng, base, &mut used)).collect();
        // a row moved by an update: its id also sits at a deleted position of an older fragment
        let mut ghost: Vec<(usize, u64)> = vec![];
        if !model.is_empty() && rng.bool() {
            let k = rng.urange(1, 5);
            let live: Vec<u64> = model.keys().copied().collect();
            for _ in 0..k {
                let g = *rng.pick(&live);
                if !ghost.iter().any(|(_, x)| *x == g) {
                    ghost.push((0, g));
                }
            }
            for (_, g) in &ghost {
                parts[0].push(*g);
            }
        }
        let all = flat(&parts);
        let n = all.len();
        let ghost_ids: BTreeSet<u64> = ghost.iter().map(|(_, g)| *g).collect();
        let dens = *rng.pick(&[0u64, 0, 5, 50, 100]);
        let mut del: Vec<u32> = vec![];
        for (pos, id) in all.iter().enumerate() {
            let d = ghost_ids.contains(id) || rng.below(100) < dens;
            if d {
                del.push(pos as u32);
                if !ghost_ids.contains(id) {
                    dead.insert(*id);
                }
            } else {
                model.insert(*id, ((fid as u64) << 32) | pos as u64);
            }
        }
        let dv = match rng.below(3) {
            0 if del.is_empty() => DeletionVector::NoDeletions,
            1 => DeletionVector::Bitmap(roaring::RoaringBitmap::from_iter(del.iter().copied())),
            _ => DeletionVector::Set(del.iter().copied().collect()),
        };
        let seq = build(&parts);
        desc.push(json!({"fragment": fid, "rows": n, "deleted": del.len(), "encodings": encodings(&seq), "moved_in_ids": ghost.len()}));
        frags.push(FragmentRowIdIndex { fragment_id: fid, row_id_sequence: Arc::new(seq), deletion_vector: Arc::new(dv) });
        fid += 1 + rng.below(3) as u32;
    }
    if rng.bool() {
        rng.shuffle(&mut frags);
    }
    let idx = match guarded(|| RowIdIndex::new(&frags)) {
        Ok(Ok(x)) => x,
        Ok(Err(e)) => {
            report.case(None);
            sink.violation_lazy("rowid-index:new-error", &e.to_string(), || json!({"seed": report.seed as i64, "case": i, "fragments": desc}));
            return;
        }
        Err(p) => {
            report.case(None);
            sink.violation_lazy("rowid-index:new-panic", &p, || json!({"seed": report.seed as i64, "case": i, "fragments": desc}));
            return;
        }
    };
    let mut checked = 0u64;
    let mut bad: Option<(String, String)> = None;
    for (id, addr) in &model {
        checked += 1;
        let got = idx.get(*id).map(u64::from);
        if got != Some(*addr) {
            bad = Some((
                if got.is_none() { "rowid-index:present-id-not-found".into() } else { "rowid-index:wrong-address".into() },
                format!("get({id}) = {:?}, model {:?}", got.map(RowAddress::from), RowAddress::from(*addr)),
            ));
            break;
        }
    }
    if bad.is_none() {
        let mut absent: Vec<u64> = dead.iter().copied().filter(|d| !model.contains_key(d)).collect();
        for (id, _) in model.iter().take(200) {
            for c in [id.wrapping_add(1), id.wrapping_sub(1)] {
                if !model.contains_key(&c) {
                    absent.push(c);
                }
            }
        }
        absent.push(0);
        absent.push(u64::MAX);
        absent.retain(|a| !model.contains_key(a));
        for a in absent {
            checked += 1;
            if let Some(g) = idx.get(a) {
                bad = Some((
                    if dead.contains(&a) { "rowid-index:deleted-id-resolves".into() } else { "rowid-index:absent-id-resolves".into() },
                    format!("get({a}) = {g:?} but the id is not a live row"),
                ));
                break;
            }
        }
    }
    report.count("index_lookups_compared", checked);
    let nt = model.len() >= 2 && nfrag >= 1;
    report.case(nt.then(|| hash_of(&("idx", model.len(), dead.len(), nfrag, model.iter().next(), model.iter().next_back()))));
    if i % 503 == 11 && report.want_sample() {
        report.sample(json!({"part": "rowid-index", "case": i, "fragments": desc, "live_ids": model.len()}));
    }
    if let Some((sig, what)) = bad {
        sink.violation_lazy(&sig, &what, || {
            json!({"seed": report.seed as i64, "part": "rowid-index", "case": i, "fragments": desc, "detail": what,
                "replay": format!("e_sets C34 --seed {} --case {i}", report.seed as i64)})
        });
    }
}

// ------------------------------------------------------------------------------------------

fn new_stats() -> Stats {
    Stats { ops: AtomicU64::new(0), enc: Default::default() }
}

fn run_exhaustive(report: &Report, sink: &Sink, st: &Stats, n_universes: u64) -> bool {
    let mut jobs: Vec<(u64, [u64; 6], Vec<u64>)> = vec![];
    for k in 0..n_universes {
        let u = universe(report.seed, k);
        for l in permutations_up_to(&u, 5) {
            jobs.push((k, u, l));
        }
    }
    let done = fan_out(n_threads(), 0, jobs.len() as u64, &|| report.time_left(), &|j| {
        let (k, u, l) = &jobs[j as usize];
        exhaustive_list(sink, st, report.seed, u, l);
        report.case((l.len() >= 2).then(|| hash_of(&("ex", k, l))));
    });
    done == jobs.len() as u64
}

/// Entry point of the Miri leg (/verif/san/sets/san34): a deterministic slice of the same
/// enumeration and random generators, single threaded. Returns (cases, operations, signatures
/// of refuting observations with their first description).
pub fn miri_shard(seed: u64, shard: u64, nshards: u64, lists: u64, random: u64) -> (u64, u64, Vec<(String, String)>) {
    quiet_panics();
    std::env::set_var("VERIF_EVIDENCE_OUT", "/dev/null");
    let args = Args { prop: "C34-miri".into(), tier: vmon::report::Tier::Quick, seed, replay: None, budget_s: None, extra: Default::default() };
    let report = Report::new(&args, "exploration", "miri", (3600, 3600));
    let sink = Sink::collecting();
    let st = new_stats();
    let mut cases = 0u64;
    // a strided sample of the complete list enumeration (every encoding, every split, every op)
    let mut jobs: Vec<([u64; 6], Vec<u64>)> = vec![];
    for k in 0..8 {
        let u = universe(seed, k);
        for l in permutations_up_to(&u, 4) {
            jobs.push((u, l));
        }
    }
    let stride = (jobs.len() as u64 / (lists * nshards).max(1)).max(1);
    let mut j = shard * stride / nshards.max(1) + shard;
    let mut taken = 0;
    while (j as usize) < jobs.len() && taken < lists {
        let (u, l) = &jobs[j as usize];
        exhaustive_list(&sink, &st, seed, u, l);
        cases += 1;
        taken += 1;
        j += stride * nshards;
    }
    for r in 0..random {
        let i = 1 + shard + nshards * r;
        if i % 3 == 0 {
            index_case(&report, &sink, i);
        } else {
            random_case(&report, &sink, &st, i);
        }
        cases += 1;
    }
    let sigs = sink.signatures_with_what();
    (cases, st.ops.load(Ordering::Relaxed), sigs)
}

fn selftest(args: &Args) -> i32 {
    quiet_panics();
    let mut a = args.clone();
    a.prop = "C34-selftest".into();
    std::env::set_var("VERIF_EVIDENCE_OUT", "/dev/null");
    let report = Report::new(&a, "exploration", "selftest", (60, 60));
    let st = new_stats();
    let sink = Sink::collecting();
    CORRUPT_ITER.store(true, Ordering::Relaxed);
    run_exhaustive(&report, &sink, &st, 1);
    CORRUPT_ITER.store(false, Ordering::Relaxed);
    let caught = sink.has_prefix("from_slice:iter-differs");
    println!("SELFTEST corrupted-iter caught={caught} signatures={}", sink.n_signatures());
    // model corrupted: the index must be flagged when the model expects a different address
    let ok2 = {
        let seq = RowIdSequence::from(&[5u64, 6, 9][..]);
        let idx = RowIdIndex::new(&[FragmentRowIdIndex { fragment_id: 3, row_id_sequence: Arc::new(seq), deletion_vector: Arc::new(DeletionVector::NoDeletions) }]).unwrap();
        idx.get(9).map(u64::from) == Some((3u64 << 32) | 2) && idx.get(7).is_none()
    };
    println!("SELFTEST index sanity={ok2}");
    if caught && ok2 {
        println!("SELFTEST C34 ok");
        0
    } else {
        println!("SELFTEST C34 FAILED");
        2
    }
}

pub fn run(args: &Args) -> i32 {
    if is_selftest(args) {
        return selftest(args);
    }
    quiet_panics();
    arm_watchdog(args.tier.pick(300, 1500));
    let rule = "Enumerated completely (per universe): every duplicate-free list of length <=5 over a 6-value universe (1237 lists), built as one segment and as every two-part `extend`; for each: iter/len/get/rev/serde, every slice, every position mask, every id-subset delete, every sorted offset selection, every composition into chunk sizes (rechunk_sequences), mask_to_offset_ranges and the RowIdTreeMap conversion. Universes vary base (0, 2^32 boundary, near u64::MAX, random) and gap pattern so that all five segment encodings are chosen. Plus seeded random lists (<=5 parts of <=2500 ids: dense, few/many holes, sparse, shuffled, descending, wide) and random fragment layouts with deletion vectors and moved rows for RowIdIndex. Non-trivial: a list with >=2 ids / an index with >=2 live ids.";
    let report = Report::new(args, "exploration", rule, (45, 600)).with_min_nontrivial(500);
    let sink = Sink::to_report(&report);
    let st = new_stats();
    if let Some(c) = args.extra.get("case").and_then(|c| c.parse::<u64>().ok()) {
        if c % 3 == 0 {
            index_case(&report, &sink, c);
        } else {
            random_case(&report, &sink, &st, c);
        }
        sink.flush();
        return report.finish();
    }
    let n_uni = args.tier.pick(8, 16);
    let complete = run_exhaustive(&report, &sink, &st, n_uni);
    report.exhaustive(complete);
    report.set("exhaustive_universes", json!(n_uni));
    report.set("t_after_exhaustive_s", json!((report.elapsed_s() * 10.0).round() / 10.0));
    if !complete {
        report.inconclusive("exhaustive list enumeration did not finish within the budget");
    }
    let max_cases = args.tier.pick(200_000u64, 20_000_000);
    fan_out(n_threads(), 1, max_cases, &|| report.time_left(), &|i| {
        if i % 3 == 0 {
            index_case(&report, &sink, i);
        } else {
            random_case(&report, &sink, &st, i);
        }
    });
    report.count("sequence_operations_checked", st.ops.load(Ordering::Relaxed));
    report.set(
        "segment_encodings_exercised",
        json!(VARIANTS.iter().enumerate().map(|(i, v)| (v.to_string(), json!(st.enc[i].load(Ordering::Relaxed)))).collect::<serde_json::Map<_, _>>()),
    );
    for (i, v) in VARIANTS.iter().enumerate() {
        if st.enc[i].load(Ordering::Relaxed) == 0 {
            report.harness_error(&format!("segment encoding {v} was never chosen by the generated lists"));
        }
    }
    report.assume("row ids within one sequence / table are unique (documented invariant of RowIdSequence); lists never contain duplicates or u64::MAX");
    report.assume("mask positions are sorted and in bounds; slices are in bounds; select offsets are sorted (documented preconditions)");
    report.assume("mask_to_offset_ranges / RowIdTreeMap conversion are skipped for ids in fragment u32::MAX (guard: the insert_range non-termination fixed in /repo 96c4b4b would hang the check if it came back; the C21 child-process probe covers it)");
    sink.flush();
    report.finish()
}
