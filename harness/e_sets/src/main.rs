//! Engine binary `e_sets`: one module per property. See /verif/DESIGN.md.
use vmon::report::parse_args;

mod c21;
mod c21_eval;
mod c21_map;
mod common;
mod ivset;
mod c32;
mod c33;
mod c34;
mod c37;
mod c43;

fn main() {
    let args = parse_args();
    let code = match args.prop.as_str() {
        "C21" => c21::run(&args),
        "C32" => c32::run(&args),
        "C33" => c33::run(&args),
        "C34" => c34::run(&args),
        "C37" => c37::run(&args),
        "C43" => c43::run(&args),
        other => {
            eprintln!("HARNESS-ERROR e_sets does not serve property '{other}'");
            2
        }
    };
    std::process::exit(code);
}
