//! C21 part 1: `RowIdTreeMap` / `RowIdMask` against the interval-set model (pure; no tokio, no fs).
use crate::ivset::IvSet;
use lance_core::utils::mask::{RowIdMask, RowIdTreeMap};
use roaring::RoaringBitmap;
use std::collections::BTreeSet;
use std::ops::{Bound, RangeBounds};
use vmon::prng::Rng;

pub type Fail = (String, String); // (narrow class, detail)

pub const FULL: (u32, u32) = (0, u32::MAX);
/// one class whatever operation exposed it: an entry without rows is kept, so `is_empty()` is false
pub const EMPTY_CLASS: &str = "is_empty-false-on-set-without-rows";

/// prefix a failure class with the operation that was being checked
pub fn pfx(what: &str, (c, d): Fail) -> Fail {
    if c == EMPTY_CLASS {
        (c, format!("after {what}: {d}"))
    } else {
        (format!("{what}:{c}"), d)
    }
}
/// sets up to this size are compared element by element in iteration order
pub const ROW_IDS_LIMIT: u128 = if cfg!(miri) { 300 } else { 20_000 };

pub fn addr(f: u32, o: u32) -> u64 {
    ((f as u64) << 32) | o as u64
}

fn with_neighbours(s: &BTreeSet<u32>) -> BTreeSet<u32> {
    let mut out = BTreeSet::new();
    for f in s {
        out.insert(*f);
        out.insert(f.saturating_sub(1));
        out.insert(f.saturating_add(1));
    }
    out
}

/// Exact comparison of a real map with the model on the candidate fragments (+ neighbours),
/// plus len / is_empty / row_ids (order) / contains on probes.
pub fn check_map(real: &RowIdTreeMap, model: &IvSet, cand: &BTreeSet<u32>) -> Result<(), Fail> {
    let mut frags = cand.clone();
    frags.extend(model.frags());
    let frags = with_neighbours(&frags);
    let mut has_full = false;
    for f in &frags {
        let mi = model.frag(*f);
        let mcard: u64 = mi.iter().map(|(a, b)| (*b as u64) - (*a as u64) + 1).sum();
        match real.get_fragment_bitmap(*f) {
            Some(bm) => {
                if bm.len() != mcard {
                    return Err((
                        "fragment-cardinality".into(),
                        format!("fragment {f}: real bitmap has {} rows, model {}", bm.len(), mcard),
                    ));
                }
                for (a, b) in &mi {
                    let want = (*b as u64) - (*a as u64) + 1;
                    if bm.range_cardinality(*a..=*b) != want {
                        return Err((
                            "fragment-content".into(),
                            format!("fragment {f}: rows {a}..={b} not all present"),
                        ));
                    }
                }
            }
            None => {
                if real.contains(addr(*f, 0)) {
                    has_full = true;
                    if mi != vec![FULL] {
                        return Err((
                            "full-marker-on-partial-set".into(),
                            format!("fragment {f} is a full-fragment marker, model has {:?}", mi),
                        ));
                    }
                } else if !mi.is_empty() {
                    return Err((
                        "fragment-missing".into(),
                        format!("fragment {f} absent, model has {:?}", mi),
                    ));
                }
            }
        }
    }
    let want_len = if has_full {
        None
    } else {
        Some(model.card() as u64)
    };
    if real.len() != want_len {
        return Err((
            "len".into(),
            format!("len() = {:?}, model {:?}", real.len(), want_len),
        ));
    }
    if real.is_empty() != model.is_empty() {
        return Err((
            EMPTY_CLASS.into(),
            format!(
                "is_empty() = {}, but the set has {} elements (len() = {:?})",
                real.is_empty(),
                model.card(),
                real.len()
            ),
        ));
    }
    match real.row_ids() {
        None => {
            if !has_full {
                return Err(("row_ids-none-without-full-fragment".into(), String::new()));
            }
        }
        Some(it) => {
            if has_full {
                return Err(("row_ids-some-with-full-fragment".into(), String::new()));
            }
            if model.card() <= ROW_IDS_LIMIT {
                let got: Vec<u64> = it.map(u64::from).collect();
                let want: Vec<u64> = model.iter().collect();
                if got != want {
                    let sorted = {
                        let mut g = got.clone();
                        g.sort();
                        g == want
                    };
                    return Err((
                        if sorted {
                            "row_ids-order".into()
                        } else {
                            "row_ids-content".into()
                        },
                        format!("row_ids() yields {} ids, model {}", got.len(), want.len()),
                    ));
                }
            }
        }
    }
    for p in model.probes() {
        if real.contains(p) != model.contains(p) {
            return Err((
                "contains".into(),
                format!("contains({p:#x}) = {}, model {}", real.contains(p), model.contains(p)),
            ));
        }
    }
    for f in &frags {
        for p in [addr(*f, 0), addr(*f, u32::MAX)] {
            if real.contains(p) != model.contains(p) {
                return Err((
                    "contains-fragment-boundary".into(),
                    format!("contains({p:#x}) = {}, model {}", real.contains(p), model.contains(p)),
                ));
            }
        }
    }
    Ok(())
}

/// Read a real map back into an interval set (exact on the candidate fragments). None if a
/// bitmap is too large to iterate or the map has content outside the candidates.
pub fn extract(real: &RowIdTreeMap, cand: &BTreeSet<u32>) -> Option<IvSet> {
    let frags = with_neighbours(cand);
    let mut iv = vec![];
    let mut total: u64 = 0;
    let mut has_full = false;
    for f in &frags {
        match real.get_fragment_bitmap(*f) {
            Some(bm) => {
                if bm.len() > 2_000_000 {
                    return None;
                }
                total += bm.len();
                let mut cur: Option<(u32, u32)> = None;
                for x in bm.iter() {
                    match cur {
                        Some((a, b)) if b != u32::MAX && x == b + 1 => cur = Some((a, x)),
                        Some((a, b)) => {
                            iv.push((addr(*f, a), addr(*f, b)));
                            cur = Some((x, x));
                        }
                        None => cur = Some((x, x)),
                    }
                }
                if let Some((a, b)) = cur {
                    iv.push((addr(*f, a), addr(*f, b)));
                }
            }
            None => {
                if real.contains(addr(*f, 0)) {
                    has_full = true;
                    iv.push((addr(*f, 0), addr(*f, u32::MAX)));
                }
            }
        }
    }
    if !has_full && real.len() != Some(total) {
        return None;
    }
    if has_full && real.len().is_some() {
        return None;
    }
    Some(IvSet::from_intervals(iv))
}

// ------------------------------------------------------------------------------------------
// ranges

#[derive(Clone, Copy, Debug, PartialEq)]
pub enum B {
    Inc(u64),
    Exc(u64),
    Unb,
}

#[derive(Clone, Copy, Debug, PartialEq)]
pub struct RangeSpec {
    pub s: B,
    pub e: B,
}

impl RangeBounds<u64> for RangeSpec {
    fn start_bound(&self) -> Bound<&u64> {
        match &self.s {
            B::Inc(x) => Bound::Included(x),
            B::Exc(x) => Bound::Excluded(x),
            B::Unb => Bound::Unbounded,
        }
    }
    fn end_bound(&self) -> Bound<&u64> {
        match &self.e {
            B::Inc(x) => Bound::Included(x),
            B::Exc(x) => Bound::Excluded(x),
            B::Unb => Bound::Unbounded,
        }
    }
}

impl RangeSpec {
    /// the mathematical meaning of the range: inclusive (lo, hi) or None if empty
    pub fn model(&self) -> Option<(u64, u64)> {
        let lo = match self.s {
            B::Inc(x) => x,
            B::Exc(x) => x.checked_add(1)?,
            B::Unb => 0,
        };
        let hi = match self.e {
            B::Inc(x) => x,
            B::Exc(x) => x.checked_sub(1)?,
            B::Unb => u64::MAX,
        };
        if lo <= hi {
            Some((lo, hi))
        } else {
            None
        }
    }
    /// Conservative upper bound of the rows a call could materialise (in units of 65536-row
    /// containers), and whether the call can be made in-process at all. A range whose end lies
    /// in fragment u32::MAX is never executed in-process (see the child-process probe).
    pub fn in_process_cost(&self) -> Option<u64> {
        let e_incl = match self.e {
            B::Inc(x) => x,
            B::Exc(x) => x.saturating_sub(1),
            B::Unb => u64::MAX,
        };
        if (e_incl >> 32) as u32 == u32::MAX {
            return None;
        }
        let s_incl = match self.s {
            B::Inc(x) => x,
            B::Exc(x) => x.saturating_add(1),
            B::Unb => 0,
        };
        if s_incl > e_incl {
            return Some(0);
        }
        let (sf, ef) = (s_incl >> 32, e_incl >> 32);
        let mut containers = 0u64;
        for f in sf..=ef.min(sf + 8) {
            let lo = if f == sf { s_incl as u32 } else { 0 } as u64;
            let hi = if f == ef { e_incl as u32 } else { u32::MAX } as u64;
            containers += (hi >> 16) - (lo >> 16) + 1;
        }
        if ef > sf + 8 {
            containers = u64::MAX;
        }
        Some(containers)
    }
}

// ------------------------------------------------------------------------------------------
// a real map, its model and the fragments it may have content in

#[derive(Clone)]
pub struct Pair {
    pub real: RowIdTreeMap,
    pub model: IvSet,
    pub touched: BTreeSet<u32>,
    pub log: Vec<String>,
}

impl Pair {
    pub fn new() -> Self {
        Self {
            real: RowIdTreeMap::new(),
            model: IvSet::new(),
            touched: BTreeSet::new(),
            log: vec![],
        }
    }
    pub fn check(&self, what: &str) -> Result<(), Fail> {
        check_map(&self.real, &self.model, &self.touched).map_err(|e| pfx(what, e))
    }
    pub fn frag_is_full(&self, f: u32) -> bool {
        self.model.frag(f) == vec![FULL]
    }
    pub fn has_full(&self) -> bool {
        self.touched.iter().any(|f| self.frag_is_full(*f))
    }
}

pub struct Pools {
    pub frags: Vec<u32>,
}

const FRAG_POOL: &[u32] = &[
    0, 0, 1, 1, 2, 3, 7, 100, 65_535, 65_536, 0x7FFF_FFFF, 0x8000_0000, 0xFFFF_FFFD, 0xFFFF_FFFE,
];
const OFF_POOL: &[u32] = &[
    0, 0, 1, 2, 3, 65_534, 65_535, 65_536, 65_537, 131_071, 131_072, 0x7FFF_FFFF, 0x8000_0000,
    u32::MAX - 2, u32::MAX - 1, u32::MAX, u32::MAX,
];

impl Pools {
    pub fn gen(rng: &mut Rng) -> Self {
        let n = rng.urange(1, 4);
        let mut frags = vec![];
        for _ in 0..n {
            let f = *rng.pick(FRAG_POOL);
            frags.push(f);
            if rng.chance(1, 3) && f < u32::MAX - 1 {
                frags.push(f + 1); // adjacent fragments make boundary crossing ranges likely
            }
        }
        Self { frags }
    }
    pub fn frag(&self, rng: &mut Rng) -> u32 {
        *rng.pick(&self.frags)
    }
    pub fn off(&self, rng: &mut Rng) -> u32 {
        match rng.below(4) {
            0 => *rng.pick(OFF_POOL),
            1 => rng.below(64) as u32,
            2 => (*rng.pick(OFF_POOL)).wrapping_add(rng.below(5) as u32).wrapping_sub(2),
            _ => {
                let lim = if cfg!(miri) { 60 } else if rng.chance(1, 8) { 200_000 } else { 2_000 };
                rng.below(lim) as u32
            }
        }
    }
    pub fn val(&self, rng: &mut Rng) -> u64 {
        addr(self.frag(rng), self.off(rng))
    }
    pub fn range(&self, rng: &mut Rng) -> RangeSpec {
        let a = self.val(rng);
        let kind = rng.below(10);
        let (lo, hi) = match kind {
            0 => (a, a),                                  // a..a, a..=a, ...
            1 => (a, a.saturating_sub(rng.below(5))),     // reversed / empty
            2 | 3 => {
                // crosses the end of a's fragment
                let f = (a >> 32) as u32;
                let big = !cfg!(miri) && rng.chance(1, 10);
                let k = rng.below(if big { 70_000 } else { 300 }) as u32;
                let j = rng.below(if big { 70_000 } else { 300 }) as u32;
                (addr(f, u32::MAX - k), addr(f.saturating_add(1), j))
            }
            4 => (a, (a | 0xFFFF_FFFF).min(a.saturating_add(rng.below(300)))), // up to the end of the fragment
            5 => (a & !0xFFFF_FFFF, (a & !0xFFFF_FFFF) + rng.below(300)),       // from the start
            _ => {
                let lim = if cfg!(miri) { 40 } else if rng.chance(1, 10) { 5_000 } else { 200 };
                (a, a.saturating_add(rng.below(lim)))
            }
        };
        let s = match rng.below(8) {
            0 => B::Exc(lo.wrapping_sub(1)),
            1 if (lo >> 32) == 0 => B::Unb,
            2 => B::Exc(lo),
            _ => B::Inc(lo),
        };
        let e = match rng.below(3) {
            0 => B::Inc(hi),
            1 => B::Exc(hi.wrapping_add(1)),
            _ => B::Exc(hi),
        };
        RangeSpec { s, e }
    }
}

/// One random mutating operation applied to both sides; Err = refuting observation.
/// `heavy` allows operations that materialise a whole 2^32-row bitmap (512 MB each).
pub fn random_op(p: &mut Pair, pools: &Pools, rng: &mut Rng, heavy: bool) -> Result<(), Fail> {
    let t0 = std::time::Instant::now();
    let r = random_op_inner(p, pools, rng, heavy);
    if std::env::var("C21_TRACE").is_ok() {
        eprintln!("trace: {:?} {:.3}s", p.log.last(), t0.elapsed().as_secs_f64());
    }
    r
}

fn random_op_inner(p: &mut Pair, pools: &Pools, rng: &mut Rng, heavy: bool) -> Result<(), Fail> {
    let k = rng.below(100);
    if k < 30 {
        let v = pools.val(rng);
        p.log.push(format!("insert({v:#x})"));
        p.touched.insert((v >> 32) as u32);
        let got = p.real.insert(v);
        let want = p.model.insert(v);
        if got != want {
            return Err((
                "insert:return-value".into(),
                format!("insert({v:#x}) returned {got}, model {want}"),
            ));
        }
        p.check("insert")
    } else if k < 45 {
        let v = pools.val(rng);
        let f = (v >> 32) as u32;
        if p.frag_is_full(f) && !heavy {
            return Ok(());
        }
        p.log.push(format!("remove({v:#x})"));
        p.touched.insert(f);
        let got = p.real.remove(v);
        let want = p.model.remove(v);
        if got != want {
            return Err((
                "remove:return-value".into(),
                format!("remove({v:#x}) returned {got}, model {want}"),
            ));
        }
        p.check("remove")
    } else if k < 75 {
        let r = pools.range(rng);
        apply_range(p, r, heavy)
    } else if k < 82 {
        let f = pools.frag(rng);
        p.log.push(format!("insert_fragment({f})"));
        p.touched.insert(f);
        p.real.insert_fragment(f);
        p.model = p.model.union(&IvSet::fragment(f));
        p.check("insert_fragment")
    } else if k < 88 {
        // documented use: a bitmap for a fragment that is not present yet
        let f = pools.frag(rng);
        if !p.model.frag(f).is_empty() || p.real.get_fragment_bitmap(f).is_some() {
            return Ok(());
        }
        let n = rng.below(40);
        let offs: Vec<u32> = (0..n).map(|_| pools.off(rng)).collect();
        if offs.is_empty() {
            return Ok(()); // an empty bitmap is not a meaningful "add"
        }
        p.log.push(format!("insert_bitmap({f}, {offs:?})"));
        p.touched.insert(f);
        p.real.insert_bitmap(f, RoaringBitmap::from_iter(offs.iter().copied()));
        p.model = p.model.union(&IvSet::from_points(offs.iter().map(|o| addr(f, *o))));
        p.check("insert_bitmap")
    } else if k < 94 {
        let n = rng.below(30);
        let vals: Vec<u64> = (0..n).map(|_| pools.val(rng)).collect();
        p.log.push(format!("extend({vals:x?})"));
        for v in &vals {
            p.touched.insert((*v >> 32) as u32);
        }
        if rng.bool() {
            p.real.extend(vals.iter().copied());
        } else {
            p.real.extend(vals.iter());
        }
        p.model = p.model.union(&IvSet::from_points(vals.iter().copied()));
        p.check("extend")
    } else {
        let keep: Vec<u32> = p
            .touched
            .iter()
            .copied()
            .filter(|_| rng.chance(2, 3))
            .collect();
        p.log.push(format!("retain_fragments({keep:?})"));
        p.real.retain_fragments(keep.iter().copied());
        let mut m = IvSet::new();
        for f in &keep {
            m = m.union(&p.model.intersect(&IvSet::fragment(*f)));
        }
        p.model = m;
        p.check("retain_fragments")
    }
}

pub fn apply_range(p: &mut Pair, r: RangeSpec, heavy: bool) -> Result<(), Fail> {
    let Some(cost) = r.in_process_cost() else {
        return Ok(());
    };
    if cost > 64 && !heavy {
        return Ok(());
    }
    if cost > 70_000 * 2 {
        return Ok(());
    }
    p.log.push(format!("insert_range({r:?})"));
    let before = p.model.card();
    let empty = r.model().is_none();
    if let Some((lo, hi)) = r.model() {
        for f in (lo >> 32)..=(hi >> 32).min((lo >> 32) + 8) {
            p.touched.insert(f as u32);
        }
        p.model = p.model.union(&IvSet::interval(lo, hi));
    }
    // fragments the real code might touch for an empty range
    for b in [r.s, r.e] {
        if let B::Inc(x) | B::Exc(x) = b {
            p.touched.insert((x >> 32) as u32);
        }
    }
    let got = p.real.insert_range(r);
    let want = (p.model.card() - before) as u64;
    let tag = if empty {
        "insert_range-empty"
    } else {
        "insert_range"
    };
    p.check(tag)?;
    if got != want {
        return Err((
            format!("{tag}:return-count"),
            format!("insert_range({r:?}) returned {got}, {want} new rows in the model"),
        ));
    }
    Ok(())
}

/// Random operation sequence. A refuting observation is recorded and the model is then re-read
/// from the real map so that the following operations are still checked.
pub fn gen_pair(pools: &Pools, rng: &mut Rng, max_ops: usize, heavy: bool, fails: &mut Vec<Fail>) -> Pair {
    let mut p = Pair::new();
    let n = rng.urange(0, max_ops);
    for _ in 0..n {
        if let Err(e) = random_op(&mut p, pools, rng, heavy) {
            fails.push(e);
            match extract(&p.real, &p.touched) {
                Some(m) => {
                    p.model = m;
                    p.log.push("<model re-read from the real map>".into());
                }
                None => break,
            }
        }
    }
    p
}

/// Observed representation: is fragment f a full-fragment marker in the real map?
pub fn real_full(t: &RowIdTreeMap, f: u32) -> bool {
    t.get_fragment_bitmap(f).is_none() && t.contains(addr(f, 0))
}

/// `x - y` materialises a 2^32-row bitmap (10 s, 512 MB) when x has a full-fragment marker where y
/// has a bitmap entry (even an empty one). Decided on the observed representation; used only to
/// decide which operations are *skipped*, never for a verdict.
pub fn real_sub_is_heavy(x: &RowIdTreeMap, y: &RowIdTreeMap, frags: &BTreeSet<u32>) -> bool {
    frags
        .iter()
        .any(|f| real_full(x, *f) && y.get_fragment_bitmap(*f).is_some())
}

pub fn sub_is_heavy(a: &Pair, b: &Pair) -> bool {
    real_sub_is_heavy(&a.real, &b.real, &union_touched(a, b))
}

fn union_touched(a: &Pair, b: &Pair) -> BTreeSet<u32> {
    a.touched.union(&b.touched).copied().collect()
}

/// All binary set operations of the tree map (operator and assign forms), checked exactly.
/// Returns the number of operations checked and every refuting observation.
pub fn check_binary(a: &Pair, b: &Pair, heavy: bool) -> (u64, Vec<Fail>) {
    let cand = union_touched(a, b);
    let mut n = 0;
    let mut fails = vec![];
    let mut note = |what: &str, r: Result<(), Fail>| {
        n += 1;
        if let Err(e) = r {
            fails.push(pfx(what, e));
        }
    };
    // union
    let u = a.model.union(&b.model);
    note("union", check_map(&(a.real.clone() | b.real.clone()), &u, &cand));
    let mut t = a.real.clone();
    t |= b.real.clone();
    note("union-assign", check_map(&t, &u, &cand));
    note("union_all", check_map(&RowIdTreeMap::union_all(&[&a.real, &b.real]), &u, &cand));
    let mut t = a.real.clone();
    t.extend(std::iter::once(b.real.clone()));
    note("extend-maps", check_map(&t, &u, &cand));
    // intersection
    let i = a.model.intersect(&b.model);
    note("intersection", check_map(&(a.real.clone() & b.real.clone()), &i, &cand));
    let mut t = a.real.clone();
    t &= &b.real;
    note("intersection-assign", check_map(&t, &i, &cand));
    // difference
    if heavy || !sub_is_heavy(a, b) {
        let d = a.model.minus(&b.model);
        note("difference", check_map(&(a.real.clone() - b.real.clone()), &d, &cand));
        let mut t = a.real.clone();
        t -= &b.real;
        note("difference-assign", check_map(&t, &d, &cand));
    }
    (n, fails)
}

/// Serialisation of a tree map: size, round trip, structural equality.
pub fn check_serde(a: &Pair) -> Result<(), Fail> {
    let mut buf = vec![];
    a.real
        .serialize_into(&mut buf)
        .map_err(|e| ("serialize:error".to_string(), e.to_string()))?;
    if buf.len() != a.real.serialized_size() {
        return Err((
            "serialize:serialized_size".into(),
            format!("serialized_size() = {}, wrote {}", a.real.serialized_size(), buf.len()),
        ));
    }
    let back = RowIdTreeMap::deserialize_from(&buf[..])
        .map_err(|e| ("deserialize:error".to_string(), e.to_string()))?;
    check_map(&back, &a.model, &a.touched).map_err(|e| pfx("deserialize", e))?;
    if back != a.real {
        return Err(("deserialize:not-equal-to-original".into(), String::new()));
    }
    Ok(())
}

// ------------------------------------------------------------------------------------------
// masks

#[derive(Clone)]
pub struct MaskPair {
    pub real: RowIdMask,
    pub allow: Option<IvSet>,
    pub block: Option<IvSet>,
    pub touched: BTreeSet<u32>,
}

impl MaskPair {
    pub fn new(allow: Option<&Pair>, block: Option<&Pair>) -> Self {
        let mut touched = BTreeSet::new();
        for p in [allow, block].into_iter().flatten() {
            touched.extend(p.touched.iter().copied());
        }
        Self {
            real: RowIdMask {
                allow_list: allow.map(|p| p.real.clone()),
                block_list: block.map(|p| p.real.clone()),
            },
            allow: allow.map(|p| p.model.clone()),
            block: block.map(|p| p.model.clone()),
            touched,
        }
    }
    /// the documented meaning: in the allow list (if any) and not in the block list (if any)
    pub fn sel(&self) -> IvSet {
        let a = self.allow.clone().unwrap_or_else(IvSet::all);
        match &self.block {
            Some(b) => a.minus(b),
            None => a,
        }
    }
    pub fn shape(&self) -> &'static str {
        match (&self.allow, &self.block) {
            (None, None) => "all-rows",
            (Some(_), None) => "allow-only",
            (None, Some(_)) => "block-only",
            (Some(_), Some(_)) => "allow+block",
        }
    }
    /// `normalize` (used by `|`) computes allow - block
    pub fn normalize_is_heavy(&self) -> bool {
        match (&self.real.allow_list, &self.real.block_list) {
            (Some(a), Some(b)) => real_sub_is_heavy(a, b, &self.touched),
            _ => false,
        }
    }
}

/// Observation hook so the selftest can corrupt what the oracle sees.
pub static CORRUPT_SELECTED: std::sync::atomic::AtomicU64 = std::sync::atomic::AtomicU64::new(0);
pub static CORRUPT_ON: std::sync::atomic::AtomicBool = std::sync::atomic::AtomicBool::new(false);

pub fn obs_selected(m: &RowIdMask, x: u64) -> bool {
    let v = m.selected(x);
    if CORRUPT_ON.load(std::sync::atomic::Ordering::Relaxed)
        && CORRUPT_SELECTED.load(std::sync::atomic::Ordering::Relaxed) == x
    {
        !v
    } else {
        v
    }
}

/// Does the real mask select exactly `exp`? Probes + exact reconstruction where possible.
pub fn check_mask(
    real: &RowIdMask,
    exp: &IvSet,
    cand: &BTreeSet<u32>,
    extra_probes: &[u64],
) -> Result<bool, Fail> {
    let mut probes = exp.probes();
    probes.extend_from_slice(extra_probes);
    for f in cand {
        probes.extend([addr(*f, 0), addr(*f, 1), addr(*f, u32::MAX)]);
    }
    for p in probes {
        let got = obs_selected(real, p);
        if got != exp.contains(p) {
            return Err((
                if got { "selects-extra-row" } else { "drops-row" }.into(),
                format!("selected({p:#x}) = {got}, the set operation requires {}", !got),
            ));
        }
    }
    let a = match &real.allow_list {
        None => Some(IvSet::all()),
        Some(t) => extract(t, cand),
    };
    let b = match &real.block_list {
        None => Some(IvSet::new()),
        Some(t) => extract(t, cand),
    };
    if let (Some(a), Some(b)) = (a, b) {
        let eff = a.minus(&b);
        if &eff != exp {
            let extra = eff.minus(exp);
            let missing = exp.minus(&eff);
            return Err((
                if !missing.is_empty() {
                    "drops-row"
                } else {
                    "selects-extra-row"
                }
                .into(),
                format!("selected set differs: extra {} missing {}", extra.brief(), missing.brief()),
            ));
        }
        Ok(true)
    } else {
        Ok(false)
    }
}

/// Unary checks on one mask: arrow round trip, selected_indices, max_len, iter_ids.
pub fn check_mask_unary(m: &MaskPair, rng: &mut Rng, pools: &Pools) -> Result<(), Fail> {
    let sel = m.sel();
    // arrow round trip
    let arr = m
        .real
        .into_arrow()
        .map_err(|e| ("mask-into_arrow:error".to_string(), e.to_string()))?;
    let back = RowIdMask::from_arrow(&arr).map_err(|e| ("mask-from_arrow:error".to_string(), e.to_string()))?;
    if back.allow_list != m.real.allow_list || back.block_list != m.real.block_list {
        return Err(("mask-arrow-roundtrip:lists-differ".into(), String::new()));
    }
    check_mask(&back, &sel, &m.touched, &[]).map_err(|(c, d)| (format!("mask-arrow-roundtrip:{c}"), d))?;
    // selected_indices
    if m.allow.is_some() || m.block.is_some() {
        let mut ids: Vec<u64> = sel.probes();
        for _ in 0..20 {
            ids.push(pools.val(rng));
        }
        rng.shuffle(&mut ids);
        ids.truncate(64);
        let got = m.real.selected_indices(ids.iter());
        let want: Vec<u64> = ids
            .iter()
            .enumerate()
            .filter(|(_, x)| sel.contains(**x))
            .map(|(i, _)| i as u64)
            .collect();
        if got != want {
            return Err((
                format!("mask-selected_indices:{}", m.shape()),
                format!("ids {ids:x?}: got {got:?}, model {want:?}"),
            ));
        }
    }
    // max_len: an upper bound of the number of selected rows, None without an allow list
    let ml = m.real.max_len();
    match (&m.allow, ml) {
        (None, Some(_)) => return Err(("mask-max_len:some-without-allow-list".into(), String::new())),
        (Some(_), Some(n)) => {
            if (n as u128) < sel.card() {
                return Err((
                    "mask-max_len:below-selected-count".into(),
                    format!("max_len {n} < {} selected", sel.card()),
                ));
            }
        }
        _ => {}
    }
    // iter_ids: when it answers, exactly the selected rows in ascending order
    if let Some(a) = &m.allow {
        if a.card() <= ROW_IDS_LIMIT {
            if let Some(it) = m.real.iter_ids() {
                let got: Vec<u64> = it.map(u64::from).collect();
                let want: Vec<u64> = sel.iter().collect();
                if got != want {
                    return Err((
                        format!("mask-iter_ids:{}", m.shape()),
                        format!("iter_ids yields {} ids, model {}", got.len(), want.len()),
                    ));
                }
            }
        }
    }
    Ok(())
}

/// `!`, `&`, `|`, also_block, also_allow, RowIdTreeMap::mask. Returns the number of checked
/// operations and every refuting observation.
pub fn check_mask_ops(a: &MaskPair, b: &MaskPair, extra: &Pair, heavy: bool) -> (u64, Vec<Fail>) {
    let mut cand: BTreeSet<u32> = a.touched.union(&b.touched).copied().collect();
    cand.extend(extra.touched.iter().copied());
    let sa = a.sel();
    let sb = b.sel();
    let mut probes = sa.probes();
    probes.extend(sb.probes());
    let mut n = 0;
    let mut fails = vec![];
    let mut note = |what: String, r: Result<bool, Fail>| {
        n += 1;
        if let Err((c, d)) = r {
            fails.push((format!("{what}:{c}"), d));
        }
    };
    // complement (`!` of a two-list mask computes allow - block)
    if heavy || !a.normalize_is_heavy() {
        note(format!("mask-not:{}", a.shape()), check_mask(&!a.real.clone(), &sa.complement(), &cand, &probes));
    }
    // intersection
    note(
        format!("mask-and:{}&{}", a.shape(), b.shape()),
        check_mask(&(a.real.clone() & b.real.clone()), &sa.intersect(&sb), &cand, &probes),
    );
    // union
    if heavy || !(a.normalize_is_heavy() || b.normalize_is_heavy() || or_is_heavy(a, b)) {
        note(
            format!("mask-or:{}|{}", a.shape(), b.shape()),
            check_mask(&(a.real.clone() | b.real.clone()), &sa.union(&sb), &cand, &probes),
        );
    }
    // also_block: the rows of the extra set are no longer selected
    let r = a.real.clone().also_block(extra.real.clone());
    note(format!("mask-also_block:{}", a.shape()), check_mask(&r, &sa.minus(&extra.model), &cand, &probes));
    // also_allow: adds to the allow list; the block list still takes precedence
    let r = a.real.clone().also_allow(extra.real.clone());
    let want = match &a.block {
        Some(bl) => sa.union(&extra.model.minus(bl)),
        None => sa.union(&extra.model),
    };
    let want = if a.allow.is_none() { sa.clone() } else { want };
    note(format!("mask-also_allow:{}", a.shape()), check_mask(&r, &want, &cand, &probes));
    // RowIdTreeMap::mask == intersection of the set with the selected rows
    let mask_heavy = match &a.real.block_list {
        Some(bl) => real_sub_is_heavy(&extra.real, bl, &cand),
        None => false,
    };
    if heavy || !mask_heavy {
        let mut t = extra.real.clone();
        t.mask(&a.real);
        n += 1;
        if let Err(e) = check_map(&t, &extra.model.intersect(&sa), &cand) {
            fails.push(pfx(&format!("treemap-mask:{}", a.shape()), e));
        }
    }
    (n, fails)
}

/// `|` subtracts the other side's allow list from a block list: heavy when the block list has a
/// full-fragment marker where the allow list is partial.
fn or_is_heavy(a: &MaskPair, b: &MaskPair) -> bool {
    let t: BTreeSet<u32> = a.touched.union(&b.touched).copied().collect();
    let chk = |bl: &Option<RowIdTreeMap>, al: &Option<RowIdTreeMap>| match (bl, al) {
        (Some(bl), Some(al)) => real_sub_is_heavy(bl, al, &t),
        _ => false,
    };
    chk(&a.real.block_list, &b.real.allow_list) || chk(&b.real.block_list, &a.real.allow_list)
}

/// The small universe: 4 row addresses in 2 fragments (+ outside probes).
#[derive(Clone, Debug)]
pub struct Small {
    pub fa: u32,
    pub fb: u32,
    pub u: [u64; 4],
    pub outside: [u64; 3],
}

impl Small {
    pub fn from_seed(seed: u64) -> Self {
        let mut rng = Rng::for_case(seed, 0xC21);
        let fa = *rng.pick(&[0u32, 0, 1, 5, 65_535, 0x7FFF_FFFF]);
        let fb = if rng.bool() { fa + 1 } else { fa + 2 + rng.below(1000) as u32 };
        let b1 = 1 + rng.below(100_000) as u32;
        Self {
            fa,
            fb,
            u: [addr(fa, 0), addr(fa, u32::MAX), addr(fb, 0), addr(fb, b1)],
            outside: [addr(fa, 1), addr(fb, u32::MAX), addr(fb + 1, 0)],
        }
    }
    /// subsets of the universe, optionally using full-fragment markers where a fragment's two
    /// universe rows are both present (the marker then also covers the rest of the fragment)
    pub fn pair(&self, bits: u8, fullmark: bool) -> Pair {
        let mut p = Pair::new();
        p.touched.insert(self.fa);
        p.touched.insert(self.fb);
        for (f, lo) in [(self.fa, 0u8), (self.fb, 2u8)] {
            let part = (bits >> lo) & 3;
            if fullmark && part == 3 {
                p.real.insert_fragment(f);
                p.model = p.model.union(&IvSet::fragment(f));
                p.log.push(format!("insert_fragment({f})"));
            } else {
                for k in 0..2 {
                    if part & (1 << k) != 0 {
                        let a = self.u[(lo + k) as usize];
                        p.real.insert(a);
                        p.model.insert(a);
                        p.log.push(format!("insert({a:#x})"));
                    }
                }
            }
        }
        p
    }
    pub fn variants(&self) -> Vec<(u8, bool)> {
        let mut v: Vec<(u8, bool)> = (0..16u8).map(|b| (b, false)).collect();
        for b in 0..16u8 {
            if b & 3 == 3 || (b >> 2) & 3 == 3 {
                v.push((b, true));
            }
        }
        v
    }
    pub fn bits_of(&self, f: impl Fn(u64) -> bool) -> u64 {
        let mut r = 0;
        for (i, a) in self.u.iter().enumerate() {
            if f(*a) {
                r |= 1 << i;
            }
        }
        r
    }
}


/// `DeletionVector` op sequence against a `BTreeSet<u32>` (shared with the Miri leg).
/// `summary` = (model size, min, max, is bitmap) for the caller's distinctness signature.
pub fn deletion_vector_ops(rng: &mut Rng, log: &mut Vec<String>, summary: &mut (usize, Option<u32>, Option<u32>, bool)) -> Result<(), Fail> {
    use lance_core::utils::deletion::{DeletionVector, OffsetMapper};
    use std::sync::Arc;
    let mut model: BTreeSet<u32> = BTreeSet::new();
    let mut dv = DeletionVector::default();
    let gen_val = |rng: &mut Rng| -> u32 {
        match rng.below(5) {
            0 => rng.below(64) as u32,
            1 => 65_530 + rng.below(12) as u32,
            2 => u32::MAX - rng.below(5) as u32,
            _ => rng.below(20_000) as u32,
        }
    };
    let r = (|| -> Result<(), Fail> {
        for _ in 0..rng.urange(1, 5) {
            // extend with: exact-size iterators (Vec), unknown-size iterators (filter), big batches
            let n = match rng.below(5) {
                0 => 0,
                1 => if cfg!(miri) { rng.urange(1, 40) } else { rng.urange(4_990, 5_010) },
                _ => rng.urange(1, 300),
            };
            let vals: Vec<u32> = (0..n).map(|_| gen_val(rng)).collect();
            log.push(format!("extend({} values, {})", vals.len(), if rng.bool() { "sized" } else { "unsized" }));
            if log.last().unwrap().contains("unsized") {
                dv.extend(vals.iter().copied().filter(|_| true));
            } else {
                dv.extend(vals.iter().copied());
            }
            model.extend(vals.iter().copied());
            if dv.len() != model.len() || dv.is_empty() != model.is_empty() {
                return Err(("deletion-vector:len".into(), format!("len {} vs {}", dv.len(), model.len())));
            }
            let mut got: Vec<u32> = dv.iter().collect();
            got.sort_unstable();
            let want: Vec<u32> = model.iter().copied().collect();
            if got != want {
                return Err(("deletion-vector:iter-content".into(), format!("{} vs {}", got.len(), want.len())));
            }
            if dv.to_sorted_iter().collect::<Vec<_>>() != want || dv.clone().into_sorted_iter().collect::<Vec<_>>() != want || dv.clone().into_iter().collect::<Vec<_>>() != want {
                return Err(("deletion-vector:sorted-iteration".into(), String::new()));
            }
            for _ in 0..40 {
                let v = if want.is_empty() || rng.bool() { gen_val(rng) } else { *rng.pick(&want) };
                if dv.contains(v) != model.contains(&v) {
                    return Err(("deletion-vector:contains".into(), format!("contains({v}) = {}", dv.contains(v))));
                }
                let a = v.saturating_sub(rng.below(4) as u32);
                let b = a.saturating_add(rng.below(6) as u32);
                let all = (a..b).all(|x| model.contains(&x));
                if dv.contains_range(a..b) != all {
                    return Err(("deletion-vector:contains_range".into(), format!("contains_range({a}..{b}) = {}, model {all}", dv.contains_range(a..b))));
                }
            }
            // the same contents in the other representation compare equal
            let other = if matches!(dv, DeletionVector::Bitmap(_)) {
                DeletionVector::Set(model.iter().copied().collect())
            } else {
                DeletionVector::Bitmap(model.iter().copied().collect())
            };
            if !model.is_empty() && other != dv {
                return Err(("deletion-vector:eq-across-representations".into(), String::new()));
            }
            let rb = roaring::RoaringBitmap::from(&dv);
            if rb.iter().collect::<Vec<_>>() != want {
                return Err(("deletion-vector:to-roaring".into(), String::new()));
            }
            // predicate over row addresses: true = keep
            let addrs: Vec<u64> = (0..30).map(|_| ((rng.below(3)) << 32) | gen_val(rng) as u64).collect();
            match dv.build_predicate(addrs.iter()) {
                Some(p) => {
                    for (k, a) in addrs.iter().enumerate() {
                        if p.value(k) == model.contains(&(*a as u32)) {
                            return Err(("deletion-vector:build_predicate".into(), format!("address {a:#x}")));
                        }
                    }
                }
                None => {
                    if !matches!(dv, DeletionVector::NoDeletions) {
                        return Err(("deletion-vector:build_predicate-none".into(), String::new()));
                    }
                }
            }
        }
        // offset mapper: the k-th surviving row
        if model.iter().all(|v| *v < 1_000_000) && !model.is_empty() {
            let mut mapper = OffsetMapper::new(Arc::new(dv.clone()));
            let mut survivors = (0u32..).filter(|x| !model.contains(x));
            let mut k = 0u32;
            for _ in 0..50 {
                let step = rng.below(40) as u32;
                let mut want = survivors.next().unwrap();
                for _ in 0..step {
                    want = survivors.next().unwrap();
                }
                k += step;
                let got = mapper.map_offset(k);
                if got != want {
                    return Err(("deletion-vector:offset-mapper".into(), format!("map_offset({k}) = {got}, model {want}")));
                }
                k += 1;
            }
        }
        Ok(())
    })();
    *summary = (model.len(), model.iter().next().copied(), model.iter().next_back().copied(), matches!(dv, DeletionVector::Bitmap(_)));
    r
}
