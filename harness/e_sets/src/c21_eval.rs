//! C21 part 2: `ScalarIndexExpr::evaluate` driven through a mock loader / mock index whose leaves
//! return chosen `SearchResult`s. The futures never pend, so a trivial executor is enough.
use async_trait::async_trait;
use datafusion::execution::SendableRecordBatchStream;
use datafusion::logical_expr::Expr;
use lance_core::cache::{Context, DeepSizeOf};
use lance_core::utils::mask::{RowIdMask, RowIdTreeMap};
use lance_core::Result;
use lance_index::metrics::{MetricsCollector, NoOpMetricsCollector};
use lance_index::scalar::expression::{IndexExprResult, ScalarIndexExpr, ScalarIndexLoader, ScalarIndexSearch};
use lance_index::scalar::{
    AnyQuery, CreatedIndex, IndexStore, ScalarIndex, ScalarIndexParams, SearchResult, UpdateCriteria,
};
use lance_index::{Index, IndexType};
use roaring::RoaringBitmap;
use std::any::Any;
use std::collections::HashMap;
use std::sync::{Arc, RwLock};

pub const EXACT: u8 = 0;
pub const AT_MOST: u8 = 1;
pub const AT_LEAST: u8 = 2;
pub const KIND_NAMES: [&str; 3] = ["Exact", "AtMost", "AtLeast"];

#[derive(Debug, Clone, PartialEq)]
pub struct LeafQuery(pub usize);

impl AnyQuery for LeafQuery {
    fn as_any(&self) -> &dyn Any {
        self
    }
    fn format(&self, col: &str) -> String {
        format!("{col}#leaf{}", self.0)
    }
    fn to_expr(&self, _col: String) -> Expr {
        datafusion::prelude::lit(true)
    }
    fn dyn_eq(&self, other: &dyn AnyQuery) -> bool {
        other.as_any().downcast_ref::<Self>() == Some(self)
    }
}

/// The mock index: `search(LeafQuery(i))` answers with leaf i's configured kind and row set.
#[derive(Debug, Default)]
pub struct MockIndex {
    pub leaves: RwLock<Vec<(u8, RowIdTreeMap)>>,
}

impl DeepSizeOf for MockIndex {
    fn deep_size_of_children(&self, _c: &mut Context) -> usize {
        0
    }
}

#[async_trait]
impl Index for MockIndex {
    fn as_any(&self) -> &dyn Any {
        self
    }
    fn as_index(self: Arc<Self>) -> Arc<dyn Index> {
        self
    }
    fn as_vector_index(self: Arc<Self>) -> Result<Arc<dyn lance_index::vector::VectorIndex>> {
        unimplemented!()
    }
    fn statistics(&self) -> Result<serde_json::Value> {
        Ok(serde_json::json!({}))
    }
    async fn prewarm(&self) -> Result<()> {
        Ok(())
    }
    fn index_type(&self) -> IndexType {
        IndexType::Scalar
    }
    async fn calculate_included_frags(&self) -> Result<RoaringBitmap> {
        Ok(RoaringBitmap::new())
    }
}

#[async_trait]
impl ScalarIndex for MockIndex {
    async fn search(&self, query: &dyn AnyQuery, _m: &dyn MetricsCollector) -> Result<SearchResult> {
        let q = query.as_any().downcast_ref::<LeafQuery>().expect("mock query");
        let g = self.leaves.read().unwrap();
        let (k, set) = &g[q.0];
        Ok(match *k {
            EXACT => SearchResult::Exact(set.clone()),
            AT_MOST => SearchResult::AtMost(set.clone()),
            _ => SearchResult::AtLeast(set.clone()),
        })
    }
    fn can_remap(&self) -> bool {
        false
    }
    async fn remap(&self, _m: &HashMap<u64, Option<u64>>, _d: &dyn IndexStore) -> Result<CreatedIndex> {
        unimplemented!()
    }
    async fn update(&self, _n: SendableRecordBatchStream, _d: &dyn IndexStore) -> Result<CreatedIndex> {
        unimplemented!()
    }
    fn update_criteria(&self) -> UpdateCriteria {
        unimplemented!()
    }
    fn derive_index_params(&self) -> Result<ScalarIndexParams> {
        unimplemented!()
    }
}

pub struct MockLoader {
    pub index: Arc<MockIndex>,
}

#[async_trait]
impl ScalarIndexLoader for MockLoader {
    async fn load_index(&self, _c: &str, _n: &str, _m: &dyn MetricsCollector) -> Result<Arc<dyn ScalarIndex>> {
        Ok(self.index.clone())
    }
}

/// Shape of an index expression; leaves are numbered left to right.
#[derive(Clone, Debug, PartialEq, Eq, Hash)]
pub enum Shape {
    Leaf,
    Not(Box<Shape>),
    And(Box<Shape>, Box<Shape>),
    Or(Box<Shape>, Box<Shape>),
}

impl Shape {
    pub fn leaves(&self) -> usize {
        match self {
            Shape::Leaf => 1,
            Shape::Not(a) => a.leaves(),
            Shape::And(a, b) | Shape::Or(a, b) => a.leaves() + b.leaves(),
        }
    }
    pub fn depth(&self) -> usize {
        match self {
            Shape::Leaf => 1,
            Shape::Not(a) => 1 + a.depth(),
            Shape::And(a, b) | Shape::Or(a, b) => 1 + a.depth().max(b.depth()),
        }
    }
    pub fn has_not(&self) -> bool {
        match self {
            Shape::Leaf => false,
            Shape::Not(_) => true,
            Shape::And(a, b) | Shape::Or(a, b) => a.has_not() || b.has_not(),
        }
    }
    /// every OR node combines NOT-free subtrees
    pub fn or_safe(&self) -> bool {
        match self {
            Shape::Leaf => true,
            Shape::Not(a) => a.or_safe(),
            Shape::And(a, b) => a.or_safe() && b.or_safe(),
            Shape::Or(a, b) => !a.has_not() && !b.has_not() && a.or_safe() && b.or_safe(),
        }
    }
    /// Shapes for which full-fragment markers cannot lead to "full fragment minus partial bitmap"
    /// (a 2^32-row materialisation) inside the mask operators: OR nodes combine NOT-free subtrees
    /// and no NOT is applied to a subtree that itself contains a NOT (`!` of a two-list mask
    /// computes allow - block).
    pub fn marker_safe(&self) -> bool {
        fn no_nested_not(s: &Shape) -> bool {
            match s {
                Shape::Leaf => true,
                Shape::Not(a) => !a.has_not(),
                Shape::And(a, b) | Shape::Or(a, b) => no_nested_not(a) && no_nested_not(b),
            }
        }
        self.or_safe() && no_nested_not(self)
    }
    pub fn has_op(&self) -> bool {
        !matches!(self, Shape::Leaf)
    }
    fn fmt_into(&self, next: &mut usize, out: &mut String) {
        match self {
            Shape::Leaf => {
                out.push_str(&format!("L{}", *next));
                *next += 1;
            }
            Shape::Not(a) => {
                out.push_str("NOT(");
                a.fmt_into(next, out);
                out.push(')');
            }
            Shape::And(a, b) | Shape::Or(a, b) => {
                out.push_str(if matches!(self, Shape::And(..)) { "AND(" } else { "OR(" });
                a.fmt_into(next, out);
                out.push(',');
                b.fmt_into(next, out);
                out.push(')');
            }
        }
    }
    pub fn text(&self) -> String {
        let mut s = String::new();
        self.fmt_into(&mut 0, &mut s);
        s
    }
    fn build(&self, next: &mut usize) -> ScalarIndexExpr {
        match self {
            Shape::Leaf => {
                let i = *next;
                *next += 1;
                ScalarIndexExpr::Query(ScalarIndexSearch {
                    column: "c".into(),
                    index_name: format!("idx{i}"),
                    query: Arc::new(LeafQuery(i)),
                    needs_recheck: false,
                })
            }
            Shape::Not(a) => ScalarIndexExpr::Not(Box::new(a.build(next))),
            Shape::And(a, b) => {
                let l = a.build(next);
                let r = b.build(next);
                ScalarIndexExpr::And(Box::new(l), Box::new(r))
            }
            Shape::Or(a, b) => {
                let l = a.build(next);
                let r = b.build(next);
                ScalarIndexExpr::Or(Box::new(l), Box::new(r))
            }
        }
    }
    pub fn to_expr(&self) -> ScalarIndexExpr {
        self.build(&mut 0)
    }
    /// Truth set of the expression given each leaf's true match set; sets are bit masks over a
    /// universe of `ubits` rows (NOT complements within the universe).
    pub fn truth_bits(&self, xs: &[u64], next: &mut usize, universe: u64) -> u64 {
        match self {
            Shape::Leaf => {
                let v = xs[*next];
                *next += 1;
                v
            }
            Shape::Not(a) => !a.truth_bits(xs, next, universe) & universe,
            Shape::And(a, b) => {
                let l = a.truth_bits(xs, next, universe);
                let r = b.truth_bits(xs, next, universe);
                l & r
            }
            Shape::Or(a, b) => {
                let l = a.truth_bits(xs, next, universe);
                let r = b.truth_bits(xs, next, universe);
                l | r
            }
        }
    }
}

/// All shapes with depth <= max_depth and at most max_leaves leaf occurrences.
pub fn all_shapes(max_depth: usize, max_leaves: usize) -> Vec<Shape> {
    fn rec(d: usize, max_leaves: usize) -> Vec<Shape> {
        let mut out = vec![Shape::Leaf];
        if d <= 1 {
            return out;
        }
        let sub = rec(d - 1, max_leaves);
        for s in &sub {
            out.push(Shape::Not(Box::new(s.clone())));
        }
        for a in &sub {
            for b in &sub {
                if a.leaves() + b.leaves() <= max_leaves {
                    out.push(Shape::And(Box::new(a.clone()), Box::new(b.clone())));
                    out.push(Shape::Or(Box::new(a.clone()), Box::new(b.clone())));
                }
            }
        }
        out
    }
    let mut v = rec(max_depth, max_leaves);
    v.retain(|s| s.leaves() <= max_leaves);
    let mut seen = std::collections::HashSet::new();
    v.retain(|s| seen.insert(s.clone()));
    v
}

pub fn run_evaluate(expr: &ScalarIndexExpr, loader: &MockLoader) -> std::result::Result<(u8, RowIdMask), String> {
    let fut = expr.evaluate(loader, &NoOpMetricsCollector);
    match futures::executor::block_on(fut) {
        Ok(IndexExprResult::Exact(m)) => Ok((EXACT, m)),
        Ok(IndexExprResult::AtMost(m)) => Ok((AT_MOST, m)),
        Ok(IndexExprResult::AtLeast(m)) => Ok((AT_LEAST, m)),
        Err(e) => Err(e.to_string()),
    }
}

/// Observation used for narrowing a witness: does the tree negate a sub-result whose mask carries
/// both an allow list and a block list? (observed by evaluating the sub-expressions)
pub fn negates_two_list_mask(expr: &ScalarIndexExpr, loader: &MockLoader) -> bool {
    match expr {
        ScalarIndexExpr::Query(_) => false,
        ScalarIndexExpr::Not(inner) => {
            let here = match run_evaluate(inner, loader) {
                Ok((_, m)) => m.allow_list.is_some() && m.block_list.is_some(),
                Err(_) => false,
            };
            here || negates_two_list_mask(inner, loader)
        }
        ScalarIndexExpr::And(a, b) | ScalarIndexExpr::Or(a, b) => {
            negates_two_list_mask(a, loader) || negates_two_list_mask(b, loader)
        }
    }
}

/// Which guarantee is broken, if any. r = rows selected by the result, t = true matches.
pub fn guarantee_broken(kind: u8, r: u64, t: u64) -> Option<&'static str> {
    let missing = t & !r;
    let extra = r & !t;
    match kind {
        EXACT => match (missing != 0, extra != 0) {
            (false, false) => None,
            (true, false) => Some("drops-matching-rows"),
            (false, true) => Some("selects-non-matching-rows"),
            (true, true) => Some("drops-and-adds-rows"),
        },
        AT_MOST => (missing != 0).then_some("drops-matching-rows"),
        _ => (extra != 0).then_some("selects-non-matching-rows"),
    }
}
