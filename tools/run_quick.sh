#!/bin/bash
# tools/run_quick.sh [ids...]  — run quick checks sequentially, summary in work/quick_summary.txt
cd /verif
IDS="$@"; [ -z "$IDS" ] && IDS=$(awk '{print $1}' harness/engines.txt)
mkdir -p work/quicklogs
for id in $IDS; do
  s=$(date +%s)
  VERIF_SEED=${VERIF_SEED:-1} timeout 1500 ./check $id quick > work/quicklogs/$id.log 2>&1
  rc=$?
  e=$(( $(date +%s) - s ))
  res=$(grep -h "^RESULT" work/quicklogs/$id.log | tail -1 | cut -c1-200)
  echo "$id rc=$rc wall=${e}s seed=${VERIF_SEED:-1} $res" | tee -a work/quick_summary.txt
done
