#!/usr/bin/env python3
import sys, json
wt, pid = sys.argv[1], sys.argv[2]
prop = None
for l in open('/verif/properties.jsonl'):
    p = json.loads(l)
    if p['id'] == pid: prop = p
t = open('/verif/tools/MUTANT_BRIEF.md').read()
extra = sys.argv[3] if len(sys.argv) > 3 else ""
print(t.replace('{WT}', wt).replace('{PROPERTY}', json.dumps(prop, indent=1)) + ("\n\n" + extra if extra else ""))
