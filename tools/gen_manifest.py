#!/usr/bin/env python3
"""Regenerates /verif/MANIFEST.json from the table below + harness/engines.txt.
Run after changing a check's level / technique / claim status:  python3 tools/gen_manifest.py
"""
import json, os, sys

ROOT = os.path.dirname(os.path.dirname(os.path.abspath(__file__)))

# id -> (level category, technique, level text, level note, design section)
P = {
 "C01": ("fault_enumeration", "crash-point enumeration via fault-injecting object store + two-admissible-states oracle",
         "Every mutating storage call of each generated write operation is crashed in turn (effect lost / effect applied, reply lost) on restored copies of the pre-state; after each crash a fresh open must see exactly the pre-state or the complete post-state, dense versions 1..N, and only fully referenced manifests.",
         "Trusted: object_store InMemory atomic create; crash = all later calls of that actor fail. Out of reach: real S3/DynamoDB, power-loss durability.", "4/C01"),
 "C02": ("exploration", "gate-scheduled interleavings + store-log single-creator / content-hash monitor",
         "2-3 writers race for the same version slot under a seeded storage-call scheduler and under un-gated multi-thread stress; monitor checks one successful create per manifest name, no later mutation, stable content hash, and that losers report a conflict.",
         "Held on the interleavings actually produced (count in evidence). Commit handlers: conditional put, rename-if-not-exists, lock based, external store mock.", "4/C02"),
 "C03": ("exploration", "gate-scheduled concurrent transactions + serial-replay model checker over recorded history",
         "Histories of 2-4 concurrent operations are forced through seeded interleavings; the final table must equal the model's serial replay of the committed operations in version order; failed operations must have no effect.",
         "Phantom-free workloads use strict serial replay; admissible-read-version rule for the rest. Interleavings at storage-call granularity only.", "4/C03"),
 "C04": ("exploration", "gate-scheduled overlapping row modifications + per-id multiplicity / lost-update oracle",
         "Pairs/triples of delete/update/merge_insert with controlled row overlap; with retries off two Ok results must have disjoint row sets; in all modes no id twice, no deleted row resurrected, final values equal strict serial replay.",
         "Same scheduler trust as C03.", "4/C04"),
 "C05": ("exploration", "structural invariant walker on every version of random histories",
         "After every step of random histories an independent walker checks field-id uniqueness, per-fragment file/row-count agreement, deletion vectors in range, fragment id order/max, row-id sequences, index metadata fields, and Dataset::validate.",
         "Walker reads manifests through the public API; histories bounded (<=12 quick / <=40 thorough ops).", "4/C05"),
 "C06": ("exploration", "snapshot-and-recompare monitor over random histories",
         "Every committed version is snapshotted (schema, ordered rows, deletions, config, index list) and re-read after every later step with fresh and shared sessions; any digest change is a violation.",
         "Versions removed by cleanup are excluded from then on, as the property states.", "4/C06"),
 "C07": ("exploration", "restore histories + global rowid->primary-key function monitor",
         "After restore(v) the latest version must equal v's snapshot; across the whole history no stable row id is ever issued to two different primary keys.",
         "Unique primary keys make reuse observable.", "4/C07"),
 "C08": ("exploration", "cleanup under random policies + retained-version readability and delete-footprint monitor (store log)",
         "Random histories with tags, orphans and aged files followed by cleanup under random policies; every retained version must still match its snapshot, deleted objects must be unreferenced by retained manifests, young unverified files must survive; cleanup raced with a writer at each storage call.",
         "mtime ageing is simulated by the store wrapper. Only delete_unverified=false in the race.", "4/C08"),
 "C09": ("exploration", "ref model + cross-ref snapshot monitor + exhaustive name-grammar comparison",
         "Random branch/tag/shallow-clone histories with colliding hierarchical names; after every op all other refs are re-read against their snapshots; branch delete footprint checked in the store log; grammar compared with an independent implementation on all short strings.",
         "Grammar alphabet is small but exhaustive up to length 5.", "4/C09"),
 "C10": ("fault_enumeration", "external-store protocol: crash/fault enumeration + joint-log checker + portable reader",
         "Two writers and a reader through a mock external manifest store; every protocol step crashed/failed in turn and interleaved; each version must map to one content for all observers, committed versions stay resolvable, finalisation converges.",
         "Mock external store (trait level). DynamoDB implementation out of reach.", "4/C10"),
 "C11": ("exploration", "model table equality over random schemas / batch splits / file limits / versions",
         "Random create/append/overwrite sequences; full scan equals the model multiset with Arrow logical equality; ordered scan equals insertion order.",
         "Model derived from the generated Arrow batches by an independent cell extractor.", "4/C11"),
 "C12": ("exploration", "SQL reference model for DELETE/UPDATE/MERGE vs real operations",
         "Random predicates, update expressions and merge sources applied to random tables; the table after the operation equals the reference model's result.",
         "Reference 3VL evaluator + DataFusion MemTable cross-check.", "4/C12"),
 "C13": ("exploration", "before/after equality monitor around compaction (rows, row ids, versions, index answers)",
         "Random fragment layouts and CompactionOptions, incl. distributed task commits in random subsets; contents, stable row ids, version columns and index answers must be unchanged.",
         "", "4/C13"),
 "C14": ("exploration", "schema-evolution model (add/alter/drop) vs real table after every step",
         "Random sequences of add/alter/drop columns interleaved with appends/deletes/compaction; untouched columns and order unchanged; added columns have exactly the requested values.",
         "", "4/C14"),
 "C15": ("exploration", "take / take_rows vs scan oracle",
         "Random tables after deletions/updates/compactions and random key lists (duplicates, unsorted, boundaries); random access must return exactly what the scan shows.",
         "", "4/C15"),
 "C16": ("exploration", "reference SQL evaluator + knob-metamorphic comparison",
         "Random typed tables, filters, projections, limits; scan result equals the reference and is identical under every scanner knob combination; count_rows agrees.",
         "Float special values decided by DataFusion MemTable reference.", "4/C16"),
 "C17": ("exploration", "row lineage model (created/updated versions) vs version columns and deltas for all version pairs",
         "Random histories with stable row ids; per-row created/updated versions and inserted/updated deltas for all version pairs must equal the model.",
         "", "4/C17"),
 "C18": ("exploration", "id->rowid constancy / injectivity monitor after every step",
         "Random histories with stable row ids: each primary key keeps its row id through updates/compaction, no two live rows share one, take_rows(rowid) returns current values.",
         "", "4/C18"),
 "C19": ("exploration", "indexed == unindexed == reference over random predicates and index states",
         "Random values and predicate trees against btree/bitmap/label_list indices in fresh/appended/deleted/updated/compacted/optimized states; index use must not change results.",
         "Counted non-trivial only when the plan used a scalar index.", "4/C19"),
 "C20": ("exploration", "superset oracle at index level + result equality at scan level",
         "Zonemap / bloom / ngram searches must return a superset of brute-force matches; scans with and without the index are equal.",
         "", "4/C20"),
 "C21": ("exploration", "set-model oracle, exhaustive over a small universe + random large masks (+Miri)",
         "All expression trees to depth 3 over Exact/AtMost/AtLeast leaves on a 4-address universe, plus random masks; guarantees and set algebra compared with BTreeSet model.",
         "Exhaustive for the stated small universe only.", "4/C21"),
 "C22": ("exploration", "brute-force top-k / distance recomputation oracle",
         "Random vectors, metrics, k, filters and index states; exact modes must return a valid top-k with correct sorted distances; no deleted or filtered-out rows in any mode.",
         "Approximate-mode recall is not claimed.", "4/C22"),
 "C23": ("exploration", "tokenised match-set model + score order monitor",
         "Small-vocabulary documents and term/phrase/boolean queries; returned ids equal the model's match set; scores non-increasing.",
         "Tokenizer model restricted to simple/whitespace + lowercase.", "4/C23"),
 "C24": ("exploration", "forced commit orders of index build vs column rewrites + per-fragment indexed/unindexed comparison",
         "create_index/optimize racing with column-rewriting updates, data replacement and compaction in every commit order; for every fragment in an index bitmap the indexed answer must equal the unindexed one.",
         "", "4/C24"),
 "C25": ("exploration", "file round-trip oracle over random schemas and read shapes",
         "Random nested Arrow data written with random versions/page sizes; full, range, multi-range, index-list, projected reads equal the written data logically.",
         "", "4/C25"),
 "C26": ("exploration", "codec round-trip + chunk invariant monitors (+Miri/ASan legs)",
         "Each compressor/decompressor pair on random blocks with extreme values; decompress(compress(x)) == x; mini-block chunk limits hold.",
         "", "4/C26"),
 "C27": ("exploration", "rep/def round trip, exhaustive small shapes + random",
         "All nesting shapes to depth 3 with validity at every level; unravel(build(x)) == canonical(x).",
         "", "4/C27"),
 "C28": ("exploration", "kernel round trip, exhaustive (type,width) pairs, Miri in quick tier",
         "FSST and FastLanes bit-packing round trips over all widths and adversarial byte strings; run natively and under Miri.",
         "", "4/C28"),
 "C29": ("exploration", "use_stats on == off == reference; recorded stats bound data",
         "Random values incl. NaN/±0/±inf/NULL/long strings; pruning must not change results; recorded min/max/null_count bound the data.",
         "", "4/C29"),
 "C30": ("exploration", "byte-exact response oracle + bounded-progress monitor under controlled completion order (+hook H1)",
         "Random range lists and store parameters; one buffer per range in order with the right bytes; all requests complete under seeded completion orders and budgets; drop cancels.",
         "Liveness restated as bounded progress; watchdog = inconclusive.", "4/C30"),
 "C31": ("fault_enumeration", "multipart fault enumeration + object equality / invisibility monitor",
         "Random chunk sequences around part thresholds; every part upload and completion failed in turn; object equals concatenation, invisible before shutdown, nothing left after failure.",
         "Backing store with controllable multipart implementation.", "4/C31"),
 "C32": ("exploration", "decode(encode(x)) == x over generated metadata values",
         "Random manifests, transactions of every operation, index metadata, fragments, row id / version sequences, deletion vectors, MemWAL details, refs.",
         "", "4/C32"),
 "C33": ("exploration", "naming round trip on boundary versions + latest-version oracle on random directories",
         "All boundary u64 versions; random directory contents with staging/temp/detached files under permuted listings; resolve_latest == max published.",
         "", "4/C33"),
 "C34": ("exploration", "Vec<u64>/map model, exhaustive small lists + random (+Miri)",
         "RowIdSequence operations and RowIdIndex lookups compared with plain vector/map models.",
         "", "4/C34"),
 "C35": ("exploration", "f64 scalar reference with forward-error bound, all lengths 0..=1100 (+Miri)",
         "Every distance kernel path vs the scalar definition; argmin/partition assignment minimal within tolerance.",
         "fp16 C kernels not built by default: out of reach.", "4/C35"),
 "C36": ("exploration", "hierarchical map model vs namespace API responses",
         "Random namespace/table operation sequences with delimiter/quote/unicode names in directory, manifest and dual modes; responses equal the map model; paging returns each entry once.",
         "", "4/C36"),
 "C37": ("exploration", "exhaustive flag words + flags-as-function-of-contents monitor + version string tables",
         "All flag words over known + first unknown bits; flags after every history step equal the function of contents; version string conversions round trip.",
         "", "4/C37"),
 "C38": ("exploration", "cached vs fresh-session differential monitor",
         "The same histories read through a shared session with cache sizes 0/tiny/large and through fresh sessions; all reads equal; includes drop-and-recreate at the same URI.",
         "", "4/C38"),
 "C39": ("exploration", "gate-scheduled MemWAL operations + state-machine checker over committed index details",
         "2-3 actors performing MemWAL transitions on 1-2 regions under seeded interleavings; generation numbering, single open, forward-only states and same-generation exclusion checked on every committed version.",
         "", "4/C39"),
 "C40": ("exploration", "logical-value models of Arrow helpers (+Miri)",
         "merge/project/take/deep_copy/list trimming/JSON helpers on random nested sliced arrays vs straightforward models.",
         "", "4/C40"),
 "C41": ("exploration", "exactly-once in-order delivery monitor for spill readers and chunker",
         "Random batch sequences, memory limits and reader start points (incl. concurrent readers); each reader sees exactly the written batches in order; chunker outputs exact sizes.",
         "", "4/C41"),
 "C42": ("exploration", "byte-copy of table root + per-version snapshot comparison",
         "Random histories on a local directory; copy every object, delete original, open copy: every version, index, deletion and tag equal the snapshots.",
         "Only histories without extra base paths, as the property states.", "4/C42"),
 "C43": ("exploration", "field-id set-algebra model vs schema/projection operations",
         "Random nested schemas with awkward names; project/exclude/intersect/merge and Projection ops compared with a set model; resolve and round trips preserve attributes.",
         "", "4/C43"),
}

# properties not (yet) claimed: id -> reason   (kept current by hand)
NOT_CLAIMED = {}
if os.path.exists(os.path.join(ROOT, "tools", "not_claimed.json")):
    NOT_CLAIMED = json.load(open(os.path.join(ROOT, "tools", "not_claimed.json")))

engines = {}
for line in open(os.path.join(ROOT, "harness", "engines.txt")):
    if line.strip():
        i, e = line.split()
        engines[i] = e

hooks_commits = []
hp = os.path.join(ROOT, "tools", "hook_commits.txt")
if os.path.exists(hp):
    hooks_commits = [l.strip() for l in open(hp) if l.strip()]

EXTRA_NOTE = {
 "C28": " Quick tier also runs the FSST / bit-packing workload under Miri (san/legs/C28.sh; timeout or missing toolchain = inconclusive, never a violation).",
 "C21": " Thorough tier adds a Miri leg (san/legs/C21.sh).", "C34": " Thorough tier adds a Miri leg (san/legs/C34.sh).",
 "C26": " Thorough tier adds a Miri leg for the pure-Rust codecs (san/legs/C26.sh).", "C27": " Thorough tier adds a Miri leg (san/legs/C27.sh).",
 "C35": " Thorough tier adds a Miri leg built with +avx,+avx2,+fma (san/legs/C35.sh).", "C40": " Thorough tier adds a Miri leg (san/legs/C40.sh).",
 "C30": " Uses hook H1 (lance-io feature verif-hooks) for the queue-budget conservation monitor.",
}
KNOWN = "Known findings (genuine defects recorded, not repaired) are matched by narrow oracle-computed signatures listed in known_findings.json / known_findings.d/; they print KNOWN-FINDING lines and do not fail the check; any other witness is a VIOLATION."

# thorough tier exists (`./check <id> thorough`) but is not registered: on the final tree its last run still surfaced
# not-yet-classified variants of OPEN defects (see DESIGN 9.6); registering a command that may print VIOLATION for a
# genuine but unlisted witness would make the check count as broken.
THOROUGH_OFF = {"C05", "C12", "C25"}

checks = []
for pid in sorted(P):
    if pid in NOT_CLAIMED:
        continue
    cat, tech, text, note, ref = P[pid]
    entry_thorough = {} if pid in THOROUGH_OFF else {"thorough_cmd": f"./check {pid} thorough"}
    checks.append({**entry_thorough,
        "property_id": pid,
        "quick_cmd": f"./check {pid} quick",
        "evidence_file": f"/verif/evidence/{pid}.json",
        "replay_cmd_template": f"./check {pid} quick --replay {{path}}",
        "engine": engines.get(pid, ""),
        "level_claimed": {"category": cat, "text": text, "design_ref": f"DESIGN.md §{ref}"},
        "level_note": (note or "Held on the executions produced; counts of what was observed are in the evidence file.") + EXTRA_NOTE.get(pid, "") + (" The thorough tier (./check %s thorough) exists but is not registered: its last run on the final tree still surfaced unlisted variants of open defects (DESIGN 9.6)." % pid if pid in THOROUGH_OFF else "") + " " + KNOWN,
        "technique": "runtime monitoring: " + tech,
    })

eng_list = {}
for pid, e in engines.items():
    eng_list.setdefault(e, []).append(pid)

manifest = {
    "version": 1,
    "setup_cmd": "./setup.sh",
    "hooks": {
        "guard": "cargo feature `verif-hooks` (off by default) on the hooked lance crates",
        "enable": "harness/Cargo.toml declares the hooked crates with features = [\"verif-hooks\"]; ./check builds with it",
        "baseline_off_cmd": "cd /repo && cargo nextest run --workspace --no-fail-fast --tool-config-file pb:/w/lib/nextest.toml --profile pb --test-threads 8 --offline",
        "source_commits": hooks_commits,
        "add_only": True,
    },
    "engines": [
        {"name": e, "path": f"harness/{e}", "serves_properties": sorted(ps),
         "kind_free_text": "Rust binary linking the real lance crates from /repo (path deps); workload generators + runtime monitors/oracles from harness/vmon"}
        for e, ps in sorted(eng_list.items())
    ],
    "checks": checks,
    "notes": "All checks decide by runtime monitoring of executions of the real code (see DESIGN.md). Exit 2 = harness error/inconclusive, never a VIOLATION.",
    "not_applicable": [{"property_id": k, "reason": v} for k, v in sorted(NOT_CLAIMED.items())],
}
json.dump(manifest, open(os.path.join(ROOT, "MANIFEST.json"), "w"), indent=1)
print(f"MANIFEST.json: {len(checks)} checks, {len(NOT_CLAIMED)} not claimed")
