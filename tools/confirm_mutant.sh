#!/bin/bash
# tools/confirm_mutant.sh <worktree> <Cxx...>: re-run the demo with and without the patch, then the /verif checks on the patched tree
WT=$1; shift
cd $WT
L=$WT/MUTANT/confirm.log; : > $L
echo "== demo WITH patch" >> $L; bash MUTANT/demo.sh >> $L 2>&1; echo "demo_with_patch_exit=$?" >> $L
git apply -R MUTANT/patch.diff >> $L 2>&1
echo "== demo WITHOUT patch" >> $L; bash MUTANT/demo.sh >> $L 2>&1; echo "demo_without_patch_exit=$?" >> $L
git apply MUTANT/patch.diff >> $L 2>&1
for id in "$@"; do
  echo "== mutcheck $id" >> $L
  /verif/tools/mutcheck.sh $WT $id quick 1 >> $L 2>&1; echo "mutcheck_${id}_exit=$?" >> $L
done
echo CONFIRMDONE >> $L
