#!/bin/bash
# tools/mutcheck.sh <lance-tree> <Cxx> [quick|thorough] [seed]
# Runs a /verif check against ANOTHER lance tree (e.g. a scratch worktree with a seeded break
# applied) without touching /repo: copies the harness, rewrites its path deps to <lance-tree>,
# builds into a scratch target dir seeded from /verif/target, writes evidence/replay under a
# scratch VERIF_ROOT. Prints the check's output and exit code. Scratch dirs: /tmp/mc_<name>.*
set -u
TREE="$(cd "$1" && pwd)"; ID="$2"; TIER="${3:-quick}"; SEED="${4:-1}"
NAME="$(basename "$TREE")"
S=/tmp/mc_$NAME
mkdir -p $S/root/evidence $S/root/work
rsync -a --delete --exclude target /verif/harness/ $S/harness/
sed -i "s#/repo/rust#$TREE/rust#g" $S/harness/Cargo.toml
sed -i "s#target-dir = .*#target-dir = \"$S/target\"#" $S/harness/.cargo/config.toml
cp $TREE/Cargo.lock $S/harness/Cargo.lock
rsync -a /verif/known_findings.json $S/root/ ; rsync -a --delete /verif/known_findings.d $S/root/ 2>/dev/null
if [ ! -d $S/target ]; then cp -a /verif/target $S/target; fi
ENGINE="$(awk -v id="$ID" '$1==id {print $2}' /verif/harness/engines.txt)"
if ! (cd $S/harness && CARGO_NET_OFFLINE=true cargo build --profile verif -p "$ENGINE" > $S/build.log 2>&1); then
  echo "MUTCHECK build failed"; tail -30 $S/build.log; exit 3
fi
VERIF_ROOT=$S/root VERIF_SEED=$SEED $S/target/verif/$ENGINE "$ID" --tier "$TIER" --seed "$SEED"
RC=$?
echo "MUTCHECK property=$ID tree=$TREE exit=$RC"
exit $RC
