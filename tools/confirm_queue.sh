#!/bin/bash
# processes /tmp/confirm_queue.txt line by line ("<worktree> <ids...>"), forever
touch /tmp/confirm_queue.txt /tmp/confirm_done.txt
while true; do
  line=$(grep -vxFf /tmp/confirm_done.txt /tmp/confirm_queue.txt | head -1)
  if [ -z "$line" ]; then sleep 30; continue; fi
  /verif/tools/confirm_mutant.sh $line > /dev/null 2>&1
  echo "$line" >> /tmp/confirm_done.txt
done
