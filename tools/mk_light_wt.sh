#!/bin/bash
# tools/mk_light_wt.sh N PROP — scratch worktree /tmp/mwN at /repo main, no prebuild, TASK.md for PROP
set -e
N=$1; P=$2; D=/tmp/mw$N
if [ ! -d $D ]; then git -C /repo worktree add --detach $D main >/dev/null 2>&1; else (cd $D && git checkout -q -- . && git clean -fdq -e target && git checkout -q --detach main); fi
cd $D
if ! grep -q "^\[profile.dev\]" .cargo/config.toml; then cat >> .cargo/config.toml <<'EOC'

[profile.dev]
debug = 0
[profile.test]
debug = 0
[build]
incremental = false
EOC
git update-index --assume-unchanged .cargo/config.toml; fi
rm -rf MUTANT TASK.md
python3 /verif/tools/mutant_prompt.py $D $P "$(cat /verif/tools/mutant_note.txt)" > TASK.md
echo "$D ready for $P at $(git log --oneline | head -1)"
