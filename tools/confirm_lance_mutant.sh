#!/bin/bash
# tools/confirm_lance_mutant.sh <worktree> <demo test name (file stem under MUTANT/)> <ids...>
# For mutants whose demonstration is an integration test of the big `lance` crate: run the
# /verif checks first, then the demo with and without the patch using the workspace-unified build
# (`--workspace --test <name>`), which reuses the worktree's prebuilt artifacts.
WT=$1; DEMO=$2; shift 2
cd $WT
L=$WT/MUTANT/confirm2.log; : > $L
cp MUTANT/$DEMO.rs rust/lance/tests/
for id in "$@"; do
  echo "== mutcheck $id" >> $L
  /verif/tools/mutcheck.sh $WT $id quick 1 >> $L 2>&1; echo "mutcheck_${id}_exit=$?" >> $L
done
echo "== demo WITH patch (workspace build)" >> $L
cargo test --offline --workspace --test $DEMO >> $L 2>&1; echo "demo_with_patch_exit=$?" >> $L
git apply -R MUTANT/patch.diff
echo "== demo WITHOUT patch" >> $L
cargo test --offline --workspace --test $DEMO >> $L 2>&1; echo "demo_without_patch_exit=$?" >> $L
git apply MUTANT/patch.diff
echo CONFIRMDONE >> $L
