#!/bin/bash
# tools/mk_mw.sh N [copy-from-M]
# Scratch worktree /tmp/mwN of /repo HEAD with a warm, small (debug=0, non-incremental) test build.
set -e
N=$1; D=/tmp/mw$N
if [ ! -d $D ]; then git -C /repo worktree add --detach $D HEAD >/dev/null 2>&1; fi
cd $D
git checkout -q --detach main
cat >> .cargo/config.toml <<'EOC'

[profile.dev]
debug = 0
[profile.test]
debug = 0
[build]
incremental = false
EOC
git update-index --assume-unchanged .cargo/config.toml
rm -rf $D/target
if [ -n "${2:-}" ] && [ -d /tmp/mw$2/target ]; then cp -a /tmp/mw$2/target $D/target; fi
nice -n 5 cargo test --workspace --no-run --offline > /tmp/mw$N.build.log 2>&1
echo "mw$N ready: $(du -sh $D/target | cut -f1)"
