#!/bin/bash
# Create scratch worktree /tmp/mw$1 of /repo with a warm test build (deps reused from /repo/target).
set -e
N=$1; D=/tmp/mw$N
git -C /repo worktree add --detach $D HEAD >/dev/null 2>&1
cp -a /repo/target $D/target
cd $D && nice -n 5 cargo test --workspace --no-run --offline > /tmp/mw$N.build.log 2>&1
echo "mw$N ready: $(tail -1 /tmp/mw$N.build.log)"
