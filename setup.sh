#!/bin/bash
# Run once after a fresh restore (offline): builds every engine from /repo's current tree.
set -e
cd "$(dirname "$0")"
export CARGO_NET_OFFLINE=true
mkdir -p work evidence
(cd harness && cargo build --profile verif --workspace 2>&1 | tail -3)
if [ -x san/setup.sh ]; then san/setup.sh || echo "san setup failed (sanitizer legs will report inconclusive)"; fi
