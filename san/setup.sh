#!/bin/bash
# Prebuilds the Miri sysroot and the Miri binaries of /verif/san so that the first `./check C28 quick` is not
# slow. Called by /verif/setup.sh. Build-only: every bin is started with the argument `none` and returns at
# once. Bounded: san28 (the only quick-tier leg) first, then the thorough-only packages while the total stays
# under ~10 minutes. A failure / timeout here only makes the corresponding leg build lazily or report
# "inconclusive"; it never fails the setup of the native checks.
set -u
cd "$(dirname "$0")"
export CARGO_NET_OFFLINE=true
unset RUSTFLAGS CARGO_ENCODED_RUSTFLAGS
BUDGET=${VERIF_SAN_SETUP_BUDGET_S:-600}
START=$(date +%s)
if ! cargo +nightly miri --version >/dev/null 2>&1; then
  echo "san/setup: cargo +nightly miri not available (legs will be inconclusive)"; exit 0
fi
timeout 300 cargo +nightly miri setup >/dev/null 2>&1 || true
for pkg in san28 san40 san27 san26 san35; do
  [ -f "$pkg/Cargo.toml" ] || continue
  left=$(( BUDGET - ( $(date +%s) - START ) ))
  if [ "$left" -lt 30 ]; then echo "san/setup: budget used up before $pkg (it will build on first use)"; continue; fi
  flags=""
  # san35 is built with the AVX features lance-linalg's SIMD wrappers assume (see legs/leg.py)
  [ "$pkg" = "san35" ] && flags="-C target-feature=+avx,+avx2,+fma"
  t0=$(date +%s)
  if RUSTFLAGS="$flags" MIRIFLAGS="-Zmiri-disable-isolation -Zmiri-ignore-leaks" timeout "$left" cargo +nightly miri run -q -p "$pkg" -- 0 0 1 quick none >/dev/null 2>&1; then
    echo "san/setup: $pkg built in $(( $(date +%s) - t0 )) s"
  else
    echo "san/setup: $pkg not built (timeout or error after $(( $(date +%s) - t0 )) s); its leg builds lazily / reports inconclusive"
  fi
done
echo "san/setup: total $(( $(date +%s) - START )) s"
exit 0
