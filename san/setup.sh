#!/bin/bash
# Prebuilds the Miri sysroot and the Miri test binaries of /verif/san so that the first
# `./check C28 quick` is not slow. Called by /verif/setup.sh. Failure here only makes the
# sanitizer legs report "inconclusive".
set -u
cd "$(dirname "$0")"
export CARGO_NET_OFFLINE=true
unset RUSTFLAGS CARGO_ENCODED_RUSTFLAGS
if ! cargo +nightly miri --version >/dev/null 2>&1; then
  echo "san/setup: cargo +nightly miri not available"; exit 1
fi
cargo +nightly miri setup >/dev/null 2>&1 || true
rc=0
for pkg in $(ls -d san*/ 2>/dev/null | tr -d /); do
  if [ -f "$pkg/Cargo.toml" ]; then
    echo "san/setup: building $pkg under Miri"
    flags=""
    # san35 is built with the AVX features lance-linalg's SIMD wrappers assume (see legs/leg.py)
    [ "$pkg" = "san35" ] && flags="-C target-feature=+avx,+avx2,+fma"
    RUSTFLAGS="$flags" MIRIFLAGS="-Zmiri-disable-isolation -Zmiri-ignore-leaks" timeout 3600 cargo +nightly miri run -q -p "$pkg" -- 0 0 1 quick none 2>&1 | tail -2 || rc=1
  fi
done
exit $rc
