#!/bin/bash
# Miri leg of C21 (thorough tier only): invoked by /verif/check after the native (deciding) run exited 0.
#   C21.sh <tier> <seed>
[ "${1:-quick}" = "thorough" ] || exit 0
exec python3 "$(dirname "$0")/sets_leg.py" C21 "${1:-quick}" "${2:-1}"
