#!/usr/bin/env python3
"""Miri legs of the e_sets engine (C21, C34): /verif/san/legs/sets_leg.py <Cxx> <tier> <seed>

Same contract as leg.py (whose classification / evidence-merge code is reused unchanged through
`import leg`), different workspace: /verif/san/sets (packages san21, san34).

 * tier quick: exit 0 immediately, evidence untouched (these legs belong to the thorough tier).
 * exit 1 + `VIOLATION property=<Cxx> replay=<log>` only if Miri reports undefined behaviour / a data
   race with a frame under /repo, or the shared model comparison fails for a class that is not a
   committed known finding (`SAN-FAIL sig=…`).
 * anything Miri cannot run (unsupported operation, build problem, timeout) => inconclusive, exit 0.
Merges `coverage.miri = {status, tests, cases, wall_s, …}` into /verif/evidence/<Cxx>.json.
"""
import json, os, subprocess, sys, time
from concurrent.futures import ThreadPoolExecutor

sys.path.insert(0, os.path.dirname(os.path.abspath(__file__)))
import leg  # noqa: E402  (classification, env, merge; not modified)

PKG = {"C21": "san21", "C34": "san34"}
SHARDS = 4
TIMEOUT = 3600  # per process; a timeout is inconclusive, never a violation


def main():
    if len(sys.argv) < 4:
        print("usage: sets_leg.py <Cxx> <tier> <seed>", file=sys.stderr)
        return 2
    prop, tier, seed = sys.argv[1], sys.argv[2], sys.argv[3]
    if tier != "thorough":
        return 0
    pkg = PKG.get(prop)
    leg.SAN = os.path.join(leg.ROOT, "san", "sets")  # run_one / miri_cmd use this working directory
    leg.KNOWN.update(leg.known_signatures(prop))
    os.makedirs(leg.WORK, exist_ok=True)
    t0 = time.time()
    result = {"tool": "miri", "tier": tier, "workspace": leg.SAN, "package": pkg}
    if pkg is None or not os.path.isdir(os.path.join(leg.SAN, pkg)):
        result.update(status="inconclusive", note="no Miri workload for this property")
        leg.merge(prop, result)
        return 0
    # build once (the shards would only queue on the build lock)
    try:
        b = subprocess.run(leg.miri_cmd(pkg, [str(seed), "0", "1", tier, "none"]), cwd=leg.SAN, env=leg.env(prop),
                           stdout=subprocess.PIPE, stderr=subprocess.STDOUT, timeout=5400, text=True, errors="replace")
        build_out, build_rc = b.stdout, b.returncode
    except subprocess.TimeoutExpired:
        build_out, build_rc = "build timeout", -9
    if build_rc != 0:
        log = os.path.join(leg.WORK, "%s-%s-build.log" % (prop, seed))
        open(log, "w").write(build_out)
        st, note = leg.classify(build_out, build_rc, build_rc == -9)
        result.update(status="inconclusive", note="Miri build/start failed: " + (note or st), log=log,
                      wall_s=round(time.time() - t0, 1), tests=0, cases={})
        leg.merge(prop, result)
        print("SAN-LEG %s miri inconclusive (build): %s" % (prop, note or st))
        return 0
    par = max(1, min(int(os.environ.get("VERIF_SAN_PAR", os.environ.get("VERIF_THREADS", "4"))), SHARDS))
    shards = [[str(seed), str(i), str(SHARDS), tier] for i in range(SHARDS)]
    with ThreadPoolExecutor(max_workers=par) as ex:
        res = list(ex.map(lambda ia: leg.run_one(prop, pkg, ia[1], ia[0], TIMEOUT, seed), enumerate(shards)))
    bad = [r for r in res if r["status"] in ("ub_found", "oracle_failed")]
    clean = [r for r in res if r["status"] in ("clean", "clean_known_findings_only")]
    other = [r for r in res if r not in bad and r not in clean]
    totals = {}
    for r in res:
        for k, v in r["stats"].items():
            if k not in ("shard", "seed"):
                totals[k] = totals.get(k, 0) + v
    brief = lambda r: {"shard": r["shard"], "status": r["status"], "note": r["note"], "log": r["log"]}
    result.update({
        "tests": len(res), "tests_clean": len(clean),
        "tests_with_known_finding_classes_only": sum(1 for r in clean if r["status"] == "clean_known_findings_only"),
        "tests_inconclusive": [brief(r) for r in other],
        "cases": totals, "wall_s": round(time.time() - t0, 1),
        "shard_wall_s": [r["wall_s"] for r in res],
        "miriflags": leg.env().get("MIRIFLAGS", ""),
        "skipped": "insert_range ending in fragment u32::MAX (known non-terminating); operations materialising a 2^32-row bitmap; expression evaluation (needs lance-index)",
    })
    if bad:
        result["status"] = "ub_found" if any(r["status"] == "ub_found" for r in bad) else "model_comparison_failed"
        result["reports"] = [brief(r) for r in bad]
        section = dict(result)
        # leg.merge only marks the evidence as violated for status ub_found
        section["status"] = "ub_found"
        section["kind"] = result["status"]
        leg.merge(prop, section)
        for r in bad[:3]:
            print("VIOLATION property=%s replay=%s" % (prop, r["log"]))
            print("  signature=miri-%s what=%s" % (r["status"], r["note"]))
        return 1
    result["status"] = "inconclusive" if not clean else ("clean_partial" if other else "clean")
    leg.merge(prop, result)
    print("SAN-LEG %s miri status=%s tests=%d clean=%d inconclusive=%d cases=%s wall_s=%.0f" % (
        prop, result["status"], len(res), len(clean), len(other), json.dumps(totals), time.time() - t0))
    return 0


if __name__ == "__main__":
    sys.exit(main())
