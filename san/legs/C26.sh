#!/bin/bash
# Miri leg of C26: invoked by /verif/check after the native (deciding) run exited 0.
#   C26.sh <tier> <seed>
exec python3 "$(dirname "$0")/leg.py" C26 "${1:-quick}" "${2:-1}"
