#!/bin/bash
# Miri leg of C35: invoked by /verif/check after the native (deciding) run exited 0.
#   C35.sh <tier> <seed>
exec python3 "$(dirname "$0")/leg.py" C35 "${1:-quick}" "${2:-1}"
