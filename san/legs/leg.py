#!/usr/bin/env python3
"""Miri leg driver: /verif/san/legs/leg.py <Cxx> <tier> <seed>

Runs the property's Miri workload (bins of the /verif/san workspace) as several parallel
processes, classifies the outcome and merges a `miri` section into /verif/evidence/<Cxx>.json.

exit 0: clean or inconclusive (Miri unsupported operation, timeout, build problem: never a violation)
exit 1: Miri reported undefined behaviour / a data race with a frame under /repo, or the shared
        round-trip oracle failed under Miri (`SAN-FAIL`): prints `VIOLATION property=<Cxx> replay=<log>`.
"""
import json, os, re, subprocess, sys, time
from concurrent.futures import ThreadPoolExecutor

ROOT = os.environ.get("VERIF_ROOT", "/verif")
SAN = os.path.join(ROOT, "san")
WORK = os.path.join(ROOT, "work", "san")

# property -> (package, per-tier list of shard argument lists, per-process timeout seconds)
def plan(prop, tier, seed):
    s = str(seed)
    if prop == "C28":
        if tier == "quick":
            nb = 8
            shards = [[s, str(i), str(nb), "quick", "bp"] for i in range(nb)]
            # FSST above the 32 KiB threshold is expensive under Miri: highly compressible kinds only
            # (measured: ~3 min for one 33 KB "repeat" array, > 15 min for kinds with many symbols)
            # and 10-25 min for a 33 KB array with ~255 symbols such as the structured token corpora: thorough only)
            for j, kind in enumerate(["repeat", "below", "empty"]):
                shards.append([s, str(j), "3", "quick", "fsst", kind])
            return "san28", shards, 600
        nb = 12
        shards = [[s, str(i), str(nb), "thorough", "bp"] for i in range(nb)]
        kinds = ["text", "random", "all256", "repeat", "small", "huge", "boundary", "esc", "chunk511",
                 "mixed", "below", "empty", "skewed", "prefixes", "tokens", "tokens511", "tokens_edge"]
        for j, kind in enumerate(kinds):
            shards.append([s, str(j), str(len(kinds)), "quick", "fsst", kind])
        return "san28", shards, 5400
    if prop == "C35":
        n = 6 if tier == "quick" else 16
        return "san35", [[s, str(i), str(n), tier] for i in range(n)], 900 if tier == "quick" else 3600
    if prop == "C27":
        n = 4 if tier == "quick" else 16
        return "san27", [[s, str(i), str(n), tier] for i in range(n)], 900 if tier == "quick" else 3600
    if prop == "C40":
        n = 4 if tier == "quick" else 12
        return "san40", [[s, str(i), str(n), tier] for i in range(n)], 900 if tier == "quick" else 3600
    if prop == "C26":
        n = 6 if tier == "quick" else 16
        return "san26", [[s, str(i), str(n), tier] for i in range(n)], 1200 if tier == "quick" else 3600
    return None, [], 0


def miri_cmd(pkg, args):
    return ["cargo", "+nightly", "miri", "run", "-q", "-p", pkg, "--"] + args


def env(prop=None):
    e = dict(os.environ)
    e["CARGO_NET_OFFLINE"] = "true"
    e.setdefault("MIRIFLAGS", "-Zmiri-disable-isolation -Zmiri-ignore-leaks")
    # do not inherit the deciding build's haswell/avx2 flags: Miri lacks many of those intrinsics
    e.pop("RUSTFLAGS", None)
    e.pop("CARGO_ENCODED_RUSTFLAGS", None)
    if prop == "C35" and os.environ.get("VERIF_SAN_C35_PORTABLE") is None:
        # lance-linalg's f32 SIMD wrappers call AVX intrinsics unconditionally on x86_64 (the repo builds with
        # target-cpu=haswell); give the interpreted target the same features, Miri emulates most of AVX/AVX2
        e["RUSTFLAGS"] = "-C target-feature=+avx,+avx2,+fma"
    return e


UB_RE = re.compile(r"Undefined Behavior|error: .*data race|Data race detected|error: deadlock")
UNSUP_RE = re.compile(r"unsupported operation|can't call foreign function|not available in Miri|error: could not compile|error\[E\d+\]")


def known_signatures(prop):
    """signatures of committed known findings (the native check already reports them as KNOWN-FINDING)"""
    sigs = set()
    paths = [os.path.join(ROOT, "known_findings.json")]
    d = os.path.join(ROOT, "known_findings.d")
    if os.path.isdir(d):
        paths += sorted(os.path.join(d, f) for f in os.listdir(d) if f.endswith(".json"))
    for p in paths:
        try:
            for f in json.load(open(p)).get("findings", []):
                if f.get("property") == prop:
                    sigs.add(f.get("signature"))
        except Exception:
            pass
    return sigs


KNOWN = set()


def classify(text, rc, timed_out):
    """-> (status, note)"""
    fails = [l for l in text.splitlines() if l.startswith("SAN-FAIL")]
    new = [l for l in fails if not any(("sig=%s " % k) in l for k in KNOWN)]
    if new:
        return "oracle_failed", new[0].strip()[:300]
    if fails and not UB_RE.search(text):
        # only failures of known (committed) finding classes: the shared oracle exits 3, nothing new
        return "clean_known_findings_only", "%d oracle failures, all of known classes" % len(fails)
    m = UB_RE.search(text)
    if m and "requires unavailable target features" in text:
        # the interpreted target lacks a CPU feature the code was written for: nothing was checked
        return "unsupported", first_line(text, "requires unavailable target features")
    if m:
        # attribute to /repo only if a frame of the report is in /repo
        tail = text[m.start():]
        if "/repo/" in tail:
            return "ub_found", first_line(tail, "/repo/")
        return "ub_outside_repo", m.group(0)
    if timed_out:
        return "timeout", "process exceeded its time limit"
    if UNSUP_RE.search(text):
        return "unsupported", first_line(text, UNSUP_RE.search(text).group(0))
    if rc != 0:
        return "error", "exit code %d" % rc
    return "clean", ""


def first_line(text, needle):
    for l in text.splitlines():
        if needle in l:
            return l.strip()[:300]
    return needle


def run_one(prop, pkg, args, idx, timeout, seed):
    log = os.path.join(WORK, "%s-%s-%d.log" % (prop, seed, idx))
    t0 = time.time()
    timed_out = False
    try:
        p = subprocess.run(miri_cmd(pkg, args), cwd=SAN, env=env(prop), stdout=subprocess.PIPE,
                           stderr=subprocess.STDOUT, timeout=timeout, text=True, errors="replace")
        out, rc = p.stdout, p.returncode
    except subprocess.TimeoutExpired as ex:
        out = (ex.stdout or "") if isinstance(ex.stdout, str) else (ex.stdout or b"").decode("utf8", "replace")
        rc, timed_out = -9, True
    with open(log, "w") as f:
        f.write("$ " + " ".join(miri_cmd(pkg, args)) + "\n" + out)
    status, note = classify(out, rc, timed_out)
    stats = {}
    for l in out.splitlines():
        if l.startswith("SAN") and " ok " in l or l.startswith("SAN") and "FAILED" in l:
            for kv in l.split():
                if "=" in kv:
                    k, v = kv.split("=", 1)
                    if v.isdigit():
                        stats[k] = stats.get(k, 0) + int(v)
    return {"shard": idx, "args": args, "status": status, "note": note, "log": log,
            "wall_s": round(time.time() - t0, 1), "stats": stats}


def main():
    if len(sys.argv) < 4:
        print("usage: leg.py <Cxx> <tier> <seed>", file=sys.stderr)
        return 2
    prop, tier, seed = sys.argv[1], sys.argv[2], sys.argv[3]
    KNOWN.update(known_signatures(prop))
    os.makedirs(WORK, exist_ok=True)
    if tier == "quick" and prop != "C28":
        # lead's budget decision: sanitizer legs of the other properties are thorough-only
        merge(prop, {"tool": "miri", "tier": tier, "status": "not_run_in_quick_tier"})
        return 0
    pkg, shards, timeout = plan(prop, tier, seed)
    t0 = time.time()
    result = {"tool": "miri", "tier": tier}
    if pkg is None or not os.path.isdir(os.path.join(SAN, pkg)):
        result.update(status="inconclusive", note="no Miri workload for this property")
        merge(prop, result)
        return 0
    # make sure the package is built once (parallel shards would only queue on the build lock)
    try:
        b = subprocess.run(miri_cmd(pkg, ["0", "0", "1", "quick", "none"]), cwd=SAN, env=env(prop),
                           stdout=subprocess.PIPE, stderr=subprocess.STDOUT, timeout=(900 if tier == "quick" else 5400), text=True, errors="replace")
        build_out, build_rc = b.stdout, b.returncode
    except subprocess.TimeoutExpired:
        build_out, build_rc = "build timeout", -9
    if build_rc != 0:
        log = os.path.join(WORK, "%s-%s-build.log" % (prop, seed))
        open(log, "w").write(build_out)
        st, note = classify(build_out, build_rc, False)
        if st in ("ub_found", "oracle_failed"):
            print("VIOLATION property=%s replay=%s" % (prop, log))
            result.update(status="ub_found", note=note, log=log)
            merge(prop, result)
            return 1
        result.update(status="inconclusive", note="Miri build/start failed: " + note, log=log,
                      wall_s=round(time.time() - t0, 1))
        merge(prop, result)
        print("SAN-LEG %s miri inconclusive (build): %s" % (prop, note))
        return 0
    par = int(os.environ.get("VERIF_SAN_PAR", os.environ.get("VERIF_THREADS", "16")))
    par = max(1, min(par, 16))
    with ThreadPoolExecutor(max_workers=par) as ex:
        futs = [ex.submit(run_one, prop, pkg, a, i, timeout, seed) for i, a in enumerate(shards)]
        res = [f.result() for f in futs]
    bad = [r for r in res if r["status"] in ("ub_found", "oracle_failed")]
    clean = [r for r in res if r["status"] in ("clean", "clean_known_findings_only")]
    other = [r for r in res if r["status"] not in ("ub_found", "oracle_failed", "clean", "clean_known_findings_only")]
    totals = {}
    for r in res:
        for k, v in r["stats"].items():
            if k in ("shard", "seed"):
                continue
            totals[k] = totals.get(k, 0) + v
    result.update({
        "processes": len(res), "processes_clean": len(clean),
        "processes_inconclusive": [{"shard": r["shard"], "status": r["status"], "note": r["note"], "log": r["log"]} for r in other],
        "cases": totals, "wall_s": round(time.time() - t0, 1),
        "miriflags": env().get("MIRIFLAGS", ""),
    })
    if bad:
        result["status"] = "ub_found"
        result["reports"] = [{"shard": r["shard"], "status": r["status"], "note": r["note"], "log": r["log"]} for r in bad]
        merge(prop, result)
        for r in bad[:3]:
            print("VIOLATION property=%s replay=%s" % (prop, r["log"]))
            print("  signature=miri-%s what=%s" % (r["status"], r["note"]))
        return 1
    if not clean:
        result["status"] = "inconclusive"
    elif other:
        result["status"] = "clean_partial"
    else:
        result["status"] = "clean"
    merge(prop, result)
    print("SAN-LEG %s miri status=%s processes=%d clean=%d inconclusive=%d cases=%s wall_s=%.0f" % (
        prop, result["status"], len(res), len(clean), len(other), json.dumps(totals), time.time() - t0))
    return 0


def merge(prop, section):
    path = os.path.join(ROOT, "evidence", prop + ".json")
    try:
        ev = json.load(open(path))
    except Exception:
        return
    ev.setdefault("coverage", {})["miri"] = section
    if section.get("status") == "ub_found":
        ev["violations"] = int(ev.get("violations", 0)) + 1
        ev["coverage"]["verdict"] = "violated"
    tmp = path + ".tmp"
    json.dump(ev, open(tmp, "w"), indent=2)
    os.replace(tmp, path)


if __name__ == "__main__":
    sys.exit(main())
