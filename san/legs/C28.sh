#!/bin/bash
# Miri leg of C28: invoked by /verif/check after the native (deciding) run exited 0.
#   C28.sh <tier> <seed>
exec python3 "$(dirname "$0")/leg.py" C28 "${1:-quick}" "${2:-1}"
