#!/bin/bash
# Miri leg of C40: invoked by /verif/check after the native (deciding) run exited 0.
#   C40.sh <tier> <seed>
exec python3 "$(dirname "$0")/leg.py" C40 "${1:-quick}" "${2:-1}"
