#!/bin/bash
# Miri leg of C27: invoked by /verif/check after the native (deciding) run exited 0.
#   C27.sh <tier> <seed>
exec python3 "$(dirname "$0")/leg.py" C27 "${1:-quick}" "${2:-1}"
