//! C27 under Miri: `k27.rs` (`#[path]`-included) — rep/def builder / unraveler (which uses
//! `get_unchecked` on the level buffers) and control words.   san27 <seed> <shard> <nshards> <tier> [none]
#[path = "../../../harness/vmon/src/prng.rs"]
mod prng;
#[path = "../../../harness/e_codec/src/k27.rs"]
mod k27;

use k27::*;
use prng::Rng;

fn main() {
    let a: Vec<String> = std::env::args().collect();
    let seed: u64 = a.get(1).and_then(|s| s.parse().ok()).unwrap_or(1);
    let shard: u64 = a.get(2).and_then(|s| s.parse().ok()).unwrap_or(0);
    let nshards: u64 = a.get(3).and_then(|s| s.parse().ok()).unwrap_or(1).max(1);
    let thorough = a.get(4).map(|s| s == "thorough").unwrap_or(false);
    if a.get(5).map(|s| s == "none").unwrap_or(false) {
        println!("SAN27 ok built");
        return;
    }
    let n_cases: u64 = if thorough { 400 } else { 120 };
    let mut fails = 0u32;
    let mut cases = 0u32;
    let mut rejected = 0u32;
    let mut levels = 0usize;
    let ks = [Kind::List, Kind::List, Kind::Struct, Kind::Fsl];
    for i in 0..n_cases {
        if i % nshards != shard {
            continue;
        }
        let mut rng = Rng::for_case(seed, (5u64 << 40) + i);
        let depth = rng.urange(0, 4);
        let with_fsl = rng.chance(1, 5);
        let kinds: Vec<Kind> = (0..depth).map(|_| if with_fsl { *rng.pick(&[Kind::Fsl, Kind::Struct]) } else { *rng.pick(&ks[..3]) }).collect();
        let lim = Limits { max_rows: *rng.pick(&[3usize, 8, 20]), max_list_len: 3, max_elems: 60, max_dim: 2 };
        let nb = rng.urange(1, 3);
        let mut shapes: Vec<Shape> = vec![];
        for _ in 0..nb {
            let mut s = build_shape(&kinds, &lim, &mut RandomChooser(&mut rng));
            if let Some(first) = shapes.first() {
                if first.layers.iter().zip(s.layers.iter()).any(|(a, b)| a.kind == Kind::Fsl && a.dim != b.dim) {
                    s = first.clone();
                }
            }
            shapes.push(s);
        }
        let mut pages = vec![];
        let mut left = nb;
        while left > 0 {
            let p = rng.urange(1, left);
            pages.push(p);
            left -= p;
        }
        let mut grng = Rng::for_case(seed, (6u64 << 40) + i);
        let g = rng.bool();
        match roundtrip(&shapes, &pages, if g { Some(&mut grng) } else { None }, false) {
            Ok(o) => {
                cases += 1;
                levels += o.levels;
                if o.rejected.is_some() {
                    rejected += 1;
                }
            }
            Err(f) => {
                fails += 1;
                println!("SAN-FAIL sig={} what={} detail={}", f.sig, f.what, f.detail);
            }
        }
    }
    // control words: a slice of the width grid
    let mut rng = Rng::for_case(seed, 7u64 << 40);
    let mut cw = 0u32;
    for br in 0..=15u32 {
        for bd in 0..=15u32 {
            if ((br * 16 + bd) as u64) % nshards != shard {
                continue;
            }
            let mr = if br == 0 { 0 } else { ((1u32 << br) - 1) as u16 };
            let md = if bd == 0 { 0 } else { 1u16 << (bd - 1) };
            match control_words(&mut rng, mr, md, 9, false) {
                Ok(_) => cw += 1,
                Err(f) => {
                    fails += 1;
                    println!("SAN-FAIL sig={} what={} detail={}", f.sig, f.what, f.detail);
                }
            }
        }
    }
    println!(
        "SAN27 {} shard={shard}/{nshards} seed={seed} cases={cases} rejected={rejected} levels={levels} control_word_combos={cw} fails={fails}",
        if fails == 0 { "ok" } else { "FAILED" }
    );
    if fails > 0 {
        std::process::exit(3);
    }
}
