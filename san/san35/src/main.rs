//! C35 under Miri: the native monitors of `k35.rs` (`#[path]`-included) on a small set of SIMD-tail
//! lengths for every element type.   san35 <seed> <shard> <nshards> <quick|thorough> [none]
//! Built WITHOUT the deciding build's `-C target-feature=+avx2,+fma` so that the portable paths run;
//! intrinsics Miri does not know end the process with "unsupported operation" (=> inconclusive).
#[path = "../../../harness/vmon/src/prng.rs"]
mod prng;
#[path = "../../../harness/e_codec/src/k35.rs"]
mod k35;

use k35::*;
use prng::Rng;

fn main() {
    let a: Vec<String> = std::env::args().collect();
    let seed: u64 = a.get(1).and_then(|s| s.parse().ok()).unwrap_or(1);
    let shard: usize = a.get(2).and_then(|s| s.parse().ok()).unwrap_or(0);
    let nshards: usize = a.get(3).and_then(|s| s.parse().ok()).unwrap_or(1).max(1);
    let thorough = a.get(4).map(|s| s == "thorough").unwrap_or(false);
    if a.get(5).map(|s| s == "none").unwrap_or(false) {
        println!("SAN35 ok built");
        return;
    }
    let lens: Vec<usize> = if thorough {
        vec![0, 1, 2, 3, 4, 5, 7, 8, 9, 15, 16, 17, 23, 24, 25, 31, 32, 33, 47, 48, 63, 64, 65, 100, 127, 128, 129, 255, 256, 257, 511, 513, 1100]
    } else {
        vec![0, 1, 3, 7, 8, 9, 15, 16, 17, 31, 32, 33, 63, 64, 65, 129]
    };
    let policy = probe_policy();
    let mut out = Out::default();
    let mut units = 0u32;
    let mut k = 0usize;
    for ty in 0..5 {
        for (li, n) in lens.iter().enumerate() {
            k += 1;
            if (k - 1) % nshards != shard {
                continue;
            }
            let mut rng = Rng::for_case(seed, (3u64 << 40) + ((ty * 2048 + n) as u64) * 4096);
            let shape = SHAPES[(li + ty + seed as usize) % SHAPES.len()];
            match ty {
                0 => check_case::<f32>(&mut rng, *n, shape, &policy, false, &mut out),
                1 => check_case::<f64>(&mut rng, *n, shape, &policy, false, &mut out),
                2 => check_case::<half::f16>(&mut rng, *n, shape, &policy, false, &mut out),
                3 => check_case::<half::bf16>(&mut rng, *n, shape, &policy, false, &mut out),
                _ => {
                    check_case::<u8>(&mut rng, *n, shape, &policy, false, &mut out);
                    check_hamming(&mut rng, *n, &policy, false, &mut out);
                }
            }
            if ty == 0 {
                check_int8_arrow(&mut rng, *n, &mut out);
            }
            units += 1;
        }
    }
    for f in &out.failures {
        println!("SAN-FAIL sig={} what={} detail={}", f.sig, f.what, f.detail);
    }
    let judged = out.counters.get("values_judged").copied().unwrap_or(0);
    println!(
        "SAN35 {} shard={shard}/{nshards} seed={seed} cases={units} values_judged={judged} fails={}",
        if out.failures.is_empty() { "ok" } else { "FAILED" },
        out.failures.len()
    );
    if !out.failures.is_empty() {
        std::process::exit(3);
    }
}
