//! C26 under Miri: the direct drive of lance-encoding's compression traits (`k26.rs`, `#[path]`-included)
//! restricted to the pure-Rust codecs: value, variable/binary, inline + out-of-line bit-packing (FastLanes
//! kernels), RLE, byte-stream-split is only reachable together with LZ4/ZSTD (C code) and therefore out,
//! FSST below its threshold (copy path), packed struct, FSL.   san26 <seed> <shard> <nshards> <tier> [none]
#[path = "../../../harness/vmon/src/prng.rs"]
mod prng;
#[path = "../../../harness/e_codec/src/k26.rs"]
mod k26;

use k26::*;

fn main() {
    let a: Vec<String> = std::env::args().collect();
    let seed: u64 = a.get(1).and_then(|s| s.parse().ok()).unwrap_or(1);
    let shard: u64 = a.get(2).and_then(|s| s.parse().ok()).unwrap_or(0);
    let nshards: u64 = a.get(3).and_then(|s| s.parse().ok()).unwrap_or(1).max(1);
    let thorough = a.get(4).map(|s| s == "thorough").unwrap_or(false);
    if a.get(5).map(|s| s == "none").unwrap_or(false) {
        println!("SAN26 ok built");
        return;
    }
    let n_cases: u64 = if thorough { 1200 } else { 240 };
    let (mut ok, mut rejected, mut fails, mut values) = (0u32, 0u32, 0u32, 0usize);
    let mut chains = std::collections::BTreeSet::new();
    for i in 0..n_cases {
        if i % nshards != shard {
            continue;
        }
        let (case, pattern, _meta, out) = run_direct_case(seed, i, false, false);
        match out {
            Outcome::Ok { chain, .. } => {
                ok += 1;
                values += case.n;
                chains.insert(format!("{}:{}", case.path, chain));
            }
            Outcome::Rejected(_) => rejected += 1,
            Outcome::Failed(f) => {
                fails += 1;
                println!("SAN-FAIL sig={} what={} detail=case {i} {} {pattern}: {}", f.sig, f.what, case.path, f.detail);
            }
        }
    }
    println!("SAN26-CHAINS {:?}", chains);
    println!(
        "SAN26 {} shard={shard}/{nshards} seed={seed} cases={ok} rejected={rejected} values={values} fails={fails}",
        if fails == 0 { "ok" } else { "FAILED" }
    );
    if fails > 0 {
        std::process::exit(3);
    }
}
