//! Miri leg of C21: RowIdTreeMap / RowIdMask / DeletionVector (lance-core/src/utils/{mask,deletion}.rs)
//! driven by the *same* generators, models and oracles as the native check
//! (/verif/harness/e_sets/src/{ivset,c21_map}.rs, included by path; sizes are capped there under
//! `cfg!(miri)`). The expression-evaluation part of C21 needs lance-index and stays native only.
//!
//!   san21 <seed> <shard> <nshards> <tier> [none]
//!
//! Output contract of /verif/san/legs/leg.py: one `SAN-FAIL sig=<signature> what=…` line per
//! refuting observation class (the oracle is the native one, so known classes carry the same
//! signatures), a final `SAN21 ok|FAILED k=v …` line. UB is reported by Miri itself.
//! The known non-terminating input (`insert_range` ending in fragment u32::MAX) and every
//! operation that materialises a 2^32-row bitmap are skipped by the shared generator/guards.
#[path = "/verif/harness/e_sets/src/ivset.rs"]
#[allow(dead_code)]
mod ivset;
#[path = "/verif/harness/e_sets/src/c21_map.rs"]
#[allow(dead_code)]
mod c21_map;

use c21_map::*;
use std::collections::BTreeMap;
use std::panic::{catch_unwind, AssertUnwindSafe};
use vmon::prng::Rng;

struct Out {
    fails: BTreeMap<String, String>,
    ops: u64,
    cases: u64,
}

impl Out {
    fn fail(&mut self, pre: &str, (c, d): Fail) {
        let p = if pre.is_empty() {
            if c.starts_with("mask-") { "mask:" } else if c.starts_with("deletion-vector") { "" } else { "treemap:" }
        } else {
            pre
        };
        self.fails.entry(format!("{p}{c}")).or_insert(d);
    }
}

fn guarded<T>(f: impl FnOnce() -> T) -> Result<T, String> {
    catch_unwind(AssertUnwindSafe(f)).map_err(|p| {
        if let Some(s) = p.downcast_ref::<String>() {
            s.clone()
        } else if let Some(s) = p.downcast_ref::<&str>() {
            s.to_string()
        } else {
            "panic".into()
        }
    })
}

fn main() {
    let a: Vec<String> = std::env::args().collect();
    let num = |i: usize, d: u64| a.get(i).and_then(|s| s.parse::<u64>().ok()).unwrap_or(d);
    let (seed, shard, nshards) = (num(1, 1), num(2, 0), num(3, 1).max(1));
    let tier = a.get(4).cloned().unwrap_or_else(|| "quick".into());
    if a.get(5).map(|s| s == "none").unwrap_or(false) {
        println!("SAN21 ok built=1");
        return;
    }
    std::panic::set_hook(Box::new(|_| {}));
    // measured: scale 1 = 29 cases / ~310 checked operations per shard, 2m50 alone on a machine at load ~60
    // (18 min per shard for scale 2 with 4 shards in parallel at load 120); the leg only runs in the thorough tier
    let scale: u64 = 1;
    let _ = &tier;
    let mut out = Out { fails: BTreeMap::new(), ops: 0, cases: 0 };

    // 1. small universe: a strided slice of all (set, set) pairs and (mask, mask, set) triples
    let small = Small::from_seed(seed.wrapping_add(shard / 2));
    let vars = small.variants();
    let np = vars.len() * vars.len();
    let mut k = shard as usize;
    let mut taken = 0;
    let step = (np / (14 * scale as usize * nshards as usize)).max(1) * nshards as usize + 1;
    while k < np && taken < 14 * scale {
        let (xb, xf) = vars[k / vars.len()];
        let (yb, yf) = vars[k % vars.len()];
        let x = small.pair(xb, xf);
        let y = small.pair(yb, yf);
        match guarded(|| {
            let mut f: Vec<Fail> = vec![];
            if let Err(e) = x.check("small-set").and_then(|_| check_serde(&x)) {
                f.push(e);
            }
            let (n, more) = check_binary(&x, &y, false);
            f.extend(more);
            (n, f)
        }) {
            Ok((n, f)) => {
                out.ops += n + 2;
                for e in f {
                    out.fail("treemap:", e);
                }
            }
            Err(p) => out.fail("treemap:", ("panic-in-set-operation".into(), p)),
        }
        out.cases += 1;
        taken += 1;
        k += step;
    }
    let lists: Vec<Option<Pair>> = std::iter::once(None).chain(vars.iter().map(|(b, f)| Some(small.pair(*b, *f)))).collect();
    let nl = lists.len();
    let pools = Pools { frags: vec![small.fa, small.fb] };
    let mut rng = Rng::for_case(seed, 0x21_0000 + shard);
    for _ in 0..10 * scale {
        let pick = |rng: &mut Rng| rng.usize_below(nl);
        let (a1, a2, b1, b2) = (pick(&mut rng), pick(&mut rng), pick(&mut rng), pick(&mut rng));
        let ma = MaskPair::new(lists[a1].as_ref(), lists[a2].as_ref());
        let mb = MaskPair::new(lists[b1].as_ref(), lists[b2].as_ref());
        let extra = lists[1 + rng.usize_below(nl - 1)].clone().unwrap();
        match guarded(|| check_mask_unary(&ma, &mut rng, &pools)) {
            Ok(Ok(())) => {}
            Ok(Err(e)) => out.fail("mask:", e),
            Err(p) => out.fail("mask:", ("panic-in-unary-operation".into(), p)),
        }
        match guarded(|| check_mask_ops(&ma, &mb, &extra, false)) {
            Ok((n, f)) => {
                out.ops += n + 1;
                for e in f {
                    out.fail("", e);
                }
            }
            Err(p) => out.fail("mask:", ("panic-in-mask-operation".into(), p)),
        }
        out.cases += 1;
    }

    // 2. random op sequences (same generator as the native random part)
    for r in 0..3 * scale {
        let i = 1 + shard + nshards * r;
        let mut rng = Rng::for_case(seed, i);
        let pools = Pools::gen(&mut rng);
        let mut fails: Vec<Fail> = vec![];
        let res = guarded(|| {
            let ps: Vec<Pair> = (0..3).map(|_| gen_pair(&pools, &mut rng, 12, false, &mut fails)).collect();
            let (a, b, c) = (&ps[0], &ps[1], &ps[2]);
            let (mut n, f) = check_binary(a, b, false);
            fails.extend(f);
            for x in [a, c] {
                if let Err(e) = check_serde(x) {
                    fails.push(e);
                }
            }
            let m1 = MaskPair::new(Some(a), if rng.bool() { Some(c) } else { None });
            let m2 = MaskPair::new(if rng.bool() { Some(b) } else { None }, Some(a));
            if let Err(e) = check_mask_unary(&m1, &mut rng, &pools) {
                fails.push(e);
            }
            for (x, y, e) in [(&m1, &m2, c), (&m2, &m1, b)] {
                let (k, f) = check_mask_ops(x, y, e, false);
                n += k;
                fails.extend(f);
            }
            n + ps.iter().map(|p| p.log.len() as u64).sum::<u64>()
        });
        match res {
            Ok(n) => out.ops += n,
            Err(p) => out.fail("treemap:", ("panic-in-random-ops".into(), p)),
        }
        for e in fails {
            out.fail("", e);
        }
        out.cases += 1;
    }

    // 3. deletion vectors
    for r in 0..2 * scale {
        let mut rng = Rng::for_case(seed, 0xD0_0000 + shard + nshards * r);
        let mut log = vec![];
        let mut summary = (0usize, None, None, false);
        match guarded(|| deletion_vector_ops(&mut rng, &mut log, &mut summary)) {
            Ok(Ok(())) => {}
            Ok(Err(e)) => out.fail("", e),
            Err(p) => out.fail("", ("deletion-vector:panic".into(), p)),
        }
        out.ops += log.len() as u64;
        out.cases += 1;
    }

    for (sig, what) in &out.fails {
        println!("SAN-FAIL sig={sig} what={}", what.replace('\n', " "));
    }
    println!(
        "SAN21 {} seed={seed} shard={shard} cases={} ops={} fail_classes={}",
        if out.fails.is_empty() { "ok" } else { "FAILED" },
        out.cases,
        out.ops,
        out.fails.len()
    );
    if !out.fails.is_empty() {
        std::process::exit(3);
    }
}
