//! Shim of /verif/harness/vmon for the Miri legs: only the dependency-free modules.
#[path = "/verif/harness/vmon/src/prng.rs"]
pub mod prng;
#[path = "/verif/harness/vmon/src/report.rs"]
pub mod report;
