//! Miri leg of C34: RowIdSequence / U64Segment / RowIdIndex (lance-table/src/rowids*) driven by the
//! native check's own enumeration, generators and list/map oracles
//! (/verif/harness/e_sets/src/{common,c34}.rs included by path; sizes capped there under `cfg!(miri)`).
//!
//!   san34 <seed> <shard> <nshards> <tier> [none]
//!
//! Output contract of /verif/san/legs/leg.py (`SAN-FAIL sig=… what=…`, final `SAN34 ok|FAILED k=v`).
//! mask_to_offset_ranges / RowIdTreeMap conversion are skipped by the shared code for ids in
//! fragments >= u32::MAX-1 (known non-terminating insert_range input).
#[path = "/verif/harness/e_sets/src/common.rs"]
#[allow(dead_code)]
mod common;
#[path = "/verif/harness/e_sets/src/c34.rs"]
#[allow(dead_code)]
mod c34;

fn main() {
    let a: Vec<String> = std::env::args().collect();
    let num = |i: usize, d: u64| a.get(i).and_then(|s| s.parse::<u64>().ok()).unwrap_or(d);
    let (seed, shard, nshards) = (num(1, 1), num(2, 0), num(3, 1).max(1));
    let tier = a.get(4).cloned().unwrap_or_else(|| "quick".into());
    if a.get(5).map(|s| s == "none").unwrap_or(false) {
        println!("SAN34 ok built=1");
        return;
    }
    // measured (loaded machine): 3 lists + 2 random cases = 5m50 for one process alone at load ~60, 35 min with 4 processes at load 120; thorough uses 2 + 2
    let (lists, random) = if tier == "thorough" { (2, 2) } else { (2, 1) };
    let (cases, ops, sigs) = c34::miri_shard(seed, shard, nshards, lists, random);
    for (sig, what) in &sigs {
        println!("SAN-FAIL sig={sig} what={}", what.replace('\n', " "));
    }
    println!(
        "SAN34 {} seed={seed} shard={shard} cases={cases} ops={ops} fail_classes={}",
        if sigs.is_empty() { "ok" } else { "FAILED" },
        sigs.len()
    );
    if !sigs.is_empty() {
        std::process::exit(3);
    }
}
