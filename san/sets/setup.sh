#!/bin/bash
# Prebuilds the Miri binaries of /verif/san/sets (san21, san34); failure only makes the legs inconclusive.
# (san34 pulls lance-table/lance-io: first build 20-25 min on a loaded machine.)
set -u
cd "$(dirname "$0")"
export CARGO_NET_OFFLINE=true
unset RUSTFLAGS CARGO_ENCODED_RUSTFLAGS
rc=0
for pkg in san21 san34; do
  echo "san/sets/setup: building $pkg under Miri"
  MIRIFLAGS="-Zmiri-disable-isolation -Zmiri-ignore-leaks" timeout 5400 cargo +nightly miri run -q -p "$pkg" -- 0 0 1 quick none 2>&1 | tail -1 || rc=1
done
exit $rc
