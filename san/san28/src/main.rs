//! C28 under Miri: the very generators / oracles of the native check (`k28.rs`, `prng.rs` are
//! `#[path]`-included, not copied), small workloads, sharded over processes.
//!
//!   san28 <seed> <shard> <nshards> <quick|thorough>
//!
//! Prints `SAN28 ok …` and exits 0, or `SAN-FAIL …` and exits 3 on a failed round trip. Undefined
//! behaviour is reported by Miri itself (non-zero exit, "Undefined Behavior" on stderr).
#[path = "../../../harness/vmon/src/prng.rs"]
mod prng;
#[path = "../../../harness/e_codec/src/k28.rs"]
mod k28;

use k28::*;
use prng::Rng;

const TY_BITS: [usize; 4] = [8, 16, 32, 64];

fn main() {
    let a: Vec<String> = std::env::args().collect();
    let seed: u64 = a.get(1).and_then(|s| s.parse().ok()).unwrap_or(1);
    let shard: usize = a.get(2).and_then(|s| s.parse().ok()).unwrap_or(0);
    let nshards: usize = a.get(3).and_then(|s| s.parse().ok()).unwrap_or(1).max(1);
    let thorough = a.get(4).map(|s| s == "thorough").unwrap_or(false);
    // optional: which parts to run ("bp", "fsst", default both) and a forced FSST kind
    let parts = a.get(5).cloned().unwrap_or_else(|| "bp,fsst".to_string());
    let forced_kind = a.get(6).cloned();
    let mut fails = 0u32;
    let mut bp_chunks = 0u32;
    let mut bp_pairs = 0u32;
    let mut fsst_cases = 0u32;
    let mut fsst_encoded = 0u32;
    let mut fsst_bytes = 0usize;

    // ---- bit-packing: this shard's slice of ALL (type, width) pairs ----
    let mut k = 0usize;
    for ty in 0..(if parts.contains("bp") { 4 } else { 0 }) {
        for width in 0..=TY_BITS[ty] {
            k += 1;
            if (k - 1) % nshards != shard {
                continue;
            }
            bp_pairs += 1;
            let npat = if thorough { BP_PATTERNS.len() } else { 2 };
            for j in 0..npat {
                // pattern 0 (random) always, plus one rotating extreme pattern
                let pi = if j == 0 { 0 } else if thorough { j } else { 1 + (k + seed as usize) % (BP_PATTERNS.len() - 1) };
                let mut rng = Rng::for_case(seed, (2u64 << 40) + ((ty * 65 + width) * 16 + pi) as u64);
                let p = BP_PATTERNS[pi];
                let r = match ty {
                    0 => bp_roundtrip::<u8>(&mut rng, width, p, false),
                    1 => bp_roundtrip::<u16>(&mut rng, width, p, false),
                    2 => bp_roundtrip::<u32>(&mut rng, width, p, false),
                    _ => bp_roundtrip::<u64>(&mut rng, width, p, false),
                };
                bp_chunks += 1;
                if let Err(f) = r {
                    fails += 1;
                    println!("SAN-FAIL sig={} what={} detail={}", f.sig, f.what, f.detail);
                }
            }
        }
    }

    // ---- FSST: one kind per shard (rotated by seed) above the threshold + small copy-path arrays ----
    let n_big = if !parts.contains("fsst") { 0 } else if thorough { 3 } else { 1 };
    for j in 0..n_big {
        let kidx = (shard + j * nshards + seed as usize) % FSST_KINDS.len();
        let kind = match &forced_kind {
            Some(k) => *FSST_KINDS.iter().find(|x| **x == k.as_str()).unwrap_or(&FSST_KINDS[kidx]),
            None => fsst_kind_for((kidx + j) as u64),
        };
        let mut rng = Rng::for_case(seed, (1u64 << 40) + (shard * 97 + j) as u64);
        let case = gen_fsst(&mut rng, kind, 0);
        fsst_bytes += case.strings.iter().map(|s| s.len()).sum::<usize>();
        match run_fsst_case(&case, &mut rng, false) {
            Ok(o) => {
                fsst_cases += 1;
                if o.encoder_on {
                    fsst_encoded += 1;
                }
            }
            Err(f) => {
                fails += 1;
                println!("SAN-FAIL sig={} what={} detail={}", f.sig, f.what, f.detail);
            }
        }
    }
    println!(
        "SAN28 {} shard={shard}/{nshards} seed={seed} bp_pairs={bp_pairs} bp_chunks={bp_chunks} fsst_cases={fsst_cases} fsst_encoded={fsst_encoded} fsst_bytes={fsst_bytes} fails={fails}",
        if fails == 0 { "ok" } else { "FAILED" }
    );
    if fails > 0 {
        std::process::exit(3);
    }
}
