//! C40 under Miri: deep copy of sliced nested arrays, list garbage filtering / trimming, struct
//! null push-down / slicing normalisation and the bfloat16 array wrapper (raw byte reinterpretation).
//!   san40 <seed> <shard> <nshards> <tier> [none]
//! Minimal duplicate of the native generator (the native c40.rs needs vmon / serde_json); equality is
//! Arrow's logical `ArrayData` equality.
#[path = "../../../harness/vmon/src/prng.rs"]
mod prng;

use arrow_array::*;
use arrow_buffer::{BooleanBuffer, NullBuffer, OffsetBuffer, ScalarBuffer};
use arrow_schema::{DataType, Field};
use lance_arrow::bfloat16::BFloat16Array;
use lance_arrow::deepcopy::{deep_copy_array, deep_copy_array_sliced, deep_copy_nulls};
use lance_arrow::list::ListArrayExt;
use lance_arrow::r#struct::StructArrayExt;
use prng::Rng;
use std::sync::Arc;

fn gen_type(rng: &mut Rng, depth: usize) -> DataType {
    if depth == 0 || rng.chance(2, 5) {
        return rng.pick(&[DataType::Int32, DataType::Float64, DataType::Utf8, DataType::Boolean]).clone();
    }
    match rng.below(3) {
        0 => {
            let k = rng.urange(1, 2);
            DataType::Struct((0..k).map(|i| Field::new(format!("f{i}"), gen_type(rng, depth - 1), true)).collect::<Vec<_>>().into())
        }
        1 => DataType::List(Arc::new(Field::new("item", gen_type(rng, depth - 1), true))),
        _ => DataType::FixedSizeList(Arc::new(Field::new("item", gen_type(rng, depth - 1), true)), rng.range(1, 2) as i32),
    }
}

fn validity(rng: &mut Rng, n: usize) -> Option<NullBuffer> {
    if rng.bool() {
        None
    } else {
        Some(NullBuffer::new(BooleanBuffer::from((0..n).map(|_| !rng.chance(1, 4)).collect::<Vec<_>>())))
    }
}

fn gen_array(rng: &mut Rng, dt: &DataType, n: usize) -> ArrayRef {
    let nulls = validity(rng, n);
    match dt {
        DataType::Int32 => Arc::new(Int32Array::new((0..n).map(|_| rng.next_u32() as i32).collect::<Vec<_>>().into(), nulls)),
        DataType::Float64 => Arc::new(Float64Array::new((0..n).map(|_| rng.f64()).collect::<Vec<_>>().into(), nulls)),
        DataType::Boolean => Arc::new(BooleanArray::new(BooleanBuffer::from((0..n).map(|_| rng.bool()).collect::<Vec<_>>()), nulls)),
        DataType::Utf8 => {
            let a = StringArray::from((0..n).map(|i| format!("s{i}")).collect::<Vec<_>>());
            Arc::new(StringArray::new(a.offsets().clone(), a.values().clone(), nulls))
        }
        DataType::Struct(fields) => {
            let cols: Vec<ArrayRef> = fields.iter().map(|f| gen_array(rng, f.data_type(), n)).collect();
            Arc::new(StructArray::new(fields.clone(), cols, nulls))
        }
        DataType::FixedSizeList(f, d) => {
            let child = gen_array(rng, f.data_type(), n * *d as usize);
            Arc::new(FixedSizeListArray::new(f.clone(), *d, child, nulls))
        }
        DataType::List(f) => {
            let lead = rng.urange(0, 2);
            let mut offs = vec![lead as i32];
            for _ in 0..n {
                offs.push(offs.last().unwrap() + rng.urange(0, 3) as i32);
            }
            let total = *offs.last().unwrap() as usize + rng.urange(0, 2);
            let child = gen_array(rng, f.data_type(), total);
            Arc::new(ListArray::new(f.clone(), OffsetBuffer::new(ScalarBuffer::from(offs)), child, nulls))
        }
        _ => unreachable!(),
    }
}

fn main() {
    let a: Vec<String> = std::env::args().collect();
    let seed: u64 = a.get(1).and_then(|s| s.parse().ok()).unwrap_or(1);
    let shard: u64 = a.get(2).and_then(|s| s.parse().ok()).unwrap_or(0);
    let nshards: u64 = a.get(3).and_then(|s| s.parse().ok()).unwrap_or(1).max(1);
    let thorough = a.get(4).map(|s| s == "thorough").unwrap_or(false);
    if a.get(5).map(|s| s == "none").unwrap_or(false) {
        println!("SAN40 ok built");
        return;
    }
    let n_cases: u64 = if thorough { 600 } else { 160 };
    let mut fails = 0u32;
    let mut cases = 0u32;
    let mut fail = |sig: &str, d: String| {
        println!("SAN-FAIL sig={sig} what=helper changed logical values detail={d}");
    };
    for i in 0..n_cases {
        if i % nshards != shard {
            continue;
        }
        let mut rng = Rng::for_case(seed, (13u64 << 40) + i);
        let dt = gen_type(&mut rng, 3);
        let n = rng.urange(0, 12);
        let arr = gen_array(&mut rng, &dt, n + 3);
        let off = rng.urange(0, 3);
        let arr = arr.slice(off, n.min(n + 3 - off));
        cases += 1;
        for (name, c) in [("deep_copy_array", deep_copy_array(arr.as_ref())), ("deep_copy_array_sliced", deep_copy_array_sliced(arr.as_ref()))] {
            if c.to_data() != arr.to_data() {
                fails += 1;
                fail(&format!("{name}-values"), format!("case {i} type {dt}"));
            }
        }
        if let Some(nb) = arr.nulls() {
            let c = deep_copy_nulls(Some(nb)).unwrap();
            if (0..nb.len()).any(|j| c.is_valid(j) != nb.is_valid(j)) {
                fails += 1;
                fail("deep_copy_nulls-values", format!("case {i}"));
            }
        }
        if let Some(l) = arr.as_any().downcast_ref::<ListArray>() {
            let f = l.filter_garbage_nulls();
            // logical comparison: same validity, same items for the valid lists, zero-length nulls (Arrow's
            // ArrayData equality also compares the extents of null slots, which is exactly what changes)
            let same = f.len() == l.len()
                && (0..l.len()).all(|j| f.is_null(j) == l.is_null(j) && (l.is_null(j) && f.value_length(j) == 0 || l.is_valid(j) && f.value(j).to_data() == l.value(j).to_data()));
            if !same {
                fails += 1;
                fail("filter_garbage_nulls-values", format!("case {i} type {dt}"));
            }
            let t = l.trimmed_values();
            let a0 = l.offsets()[0] as usize;
            let b0 = l.offsets()[l.len()] as usize;
            if t.to_data() != l.values().slice(a0, b0 - a0).to_data() {
                fails += 1;
                fail("trimmed_values-values", format!("case {i} type {dt}"));
            }
        }
        if let Some(s) = arr.as_any().downcast_ref::<StructArray>() {
            match s.pushdown_nulls() {
                Ok(p) => {
                    if p.to_data() != s.to_data() {
                        fails += 1;
                        fail("pushdown_nulls-values", format!("case {i} type {dt}"));
                    }
                }
                Err(e) => {
                    fails += 1;
                    fail("pushdown_nulls-err", e.to_string());
                }
            }
            if s.normalize_slicing().map(|x| x.to_data() != s.to_data()).unwrap_or(true) {
                fails += 1;
                fail("normalize_slicing-values", format!("case {i}"));
            }
        }
        // bfloat16 wrapper
        let vals: Vec<half::bf16> = (0..rng.urange(0, 9)).map(|_| half::bf16::from_f32((rng.f64() * 100.0) as f32)).collect();
        let b = BFloat16Array::from_iter_values(vals.iter().copied());
        if b.len() != vals.len() || (0..vals.len()).any(|j| b.value(j).to_bits() != vals[j].to_bits()) || b.iter().count() != vals.len() {
            fails += 1;
            fail("bfloat16-values", format!("case {i}"));
        }
        let opt: Vec<Option<half::bf16>> = vals.iter().enumerate().map(|(j, v)| if j % 3 == 0 { None } else { Some(*v) }).collect();
        let b: BFloat16Array = opt.iter().copied().collect();
        for (j, o) in opt.iter().enumerate() {
            if b.is_null(j) != o.is_none() || o.map(|v| b.value(j).to_bits() != v.to_bits()).unwrap_or(false) {
                fails += 1;
                fail("bfloat16-nullable-values", format!("case {i} row {j}"));
            }
        }
        if vals.len() > 2 {
            let s = b.slice(1, vals.len() - 1);
            let _ = s.len();
        }
    }
    println!("SAN40 {} shard={shard}/{nshards} seed={seed} cases={cases} fails={fails}", if fails == 0 { "ok" } else { "FAILED" });
    if fails > 0 {
        std::process::exit(3);
    }
}
